"""pytest plugin: records argument-store traces of the repository's own tests (for C03).

Loaded with `-p harness.trace_plugin` (PYTHONPATH=/verif:/repo).  It wraps the public
editing protocol of fdl.Buildable (no change to the repository is needed): every top-level
__setattr__ / __delattr__ / __setitem__ / __delitem__ / __getitem__ on a plain Config,
Partial or ArgFactory becomes one event (operation, outcome, projected store afterwards) of
that object's trace, in the format of harness/c03.record_traces.  The traces are validated
against spec/FdlStore by spec/Trace_C03 (harness/c03.py, section "repository tests").

Abstraction: parameter i of the callable's signature has name id i; at most two other names
(101, 102) per object; values are interned per trace by identity; fdl.NO_VALUE = -1; an
unset cell reads as 1000 + i (the default object).  Whatever does not fit (TaggedValue
assignments, a third extra name, subclasses with their own protocol) ends the trace.  If the
store was changed behind the protocol (unflatten, casting, copies), a new trace starts
from the state found.
"""
from __future__ import annotations

import inspect
import json
import os
import threading

_tls = threading.local()
TRACES = []
_MAX_TRACES = 60000


def _depth():
  return getattr(_tls, 'depth', 0)


class _Rec:
  """Per-object recorder."""

  def __init__(self, obj):
    self.owner = id(obj)
    self.sig = None
    self.names = {}
    self.extra = {}
    self.leaves = {}
    self.keep = []
    self.trace = None
    self.dead = False
    self.sig_id = None

  def start(self, obj, config_lib):
    params = list(obj.__signature_info__.parameters.items())
    kinds = {inspect.Parameter.POSITIONAL_ONLY: 'PO', inspect.Parameter.POSITIONAL_OR_KEYWORD: 'PK',
             inspect.Parameter.VAR_POSITIONAL: 'VP', inspect.Parameter.KEYWORD_ONLY: 'KO',
             inspect.Parameter.VAR_KEYWORD: 'VK'}
    self.sig = [{'k': kinds[p.kind], 'd': p.default is not inspect.Parameter.empty} for _, p in params]
    self.names = {n: i + 1 for i, (n, _) in enumerate(params)}
    if len(self.sig) > 8:
      self.dead = True

  def leaf(self, v, config_lib):
    if v is config_lib.NO_VALUE:
      return -1
    if isinstance(v, config_lib.TaggedValueCls):
      self.dead = True
      return 0
    k = id(v)
    if k not in self.leaves:
      self.leaves[k] = len(self.leaves) + 1
      self.keep.append(v)
    return self.leaves[k]

  def name_id(self, name):
    if name in self.names:
      if self.sig[self.names[name] - 1]['k'] == 'VK':
        self.dead = True          # the **kwargs parameter's own name is outside FdlStore's domain
      return self.names[name]
    if name not in self.extra:
      if len(self.extra) >= 2:
        self.dead = True
        return 0
      self.extra[name] = 101 + len(self.extra)
    return self.extra[name]

  def project(self, obj, config_lib):
    sig = self.sig
    n = sum(1 for p in sig if p['k'] in ('PO', 'PK'))
    pre, ko, ex, va, stray = [0] * n, [0] * len(sig), [0] * (len(sig) + 2), {}, []
    hasvp = any(p['k'] == 'VP' for p in sig)
    hasvk = any(p['k'] == 'VK' for p in sig)
    for k, v in obj.__arguments__.items():
      pv = self.leaf(v, config_lib)
      if isinstance(k, bool) or not isinstance(k, (int, str)):
        stray.append(repr(k))
      elif isinstance(k, int):
        if 0 <= k < n and sig[k]['k'] == 'PO':
          pre[k] = pv
        elif hasvp and k >= n:
          va[k - n] = pv
        else:
          stray.append(k)
      else:
        i = self.name_id(k)
        if self.dead:
          return None
        if i <= 100:
          kind = sig[i - 1]['k']
          if kind == 'PK':
            pre[i - 1] = pv
          elif kind == 'KO':
            ko[i - 1] = pv
          elif hasvk:
            ex[i - 1] = pv
          else:
            stray.append(k)
        elif hasvk:
          ex[len(sig) + i - 101] = pv
        else:
          stray.append(k)
    valist = []
    for j in range(len(va)):
      if j not in va:
        stray.append('va-gap')
        break
      valist.append(va[j])
    out = {'pre': pre, 'va': valist, 'ko': ko, 'ex': ex}
    if stray:
      out['stray'] = stray
    return out


_VARARGS = [None]
_RECS = {}     # id(obj) -> (obj, recorder); the object is kept alive so that its id stays its own


def _recorder(obj):
  e = _RECS.get(id(obj))
  si = id(object.__getattribute__(obj, '__dict__').get('__signature_info__'))
  if e is None or e[1].sig_id != si:       # (update_callable installs another signature: new recorder)
    r = _Rec(obj)
    r.sig_id = si
    e = (obj, r)
    _RECS[id(obj)] = e
  return e[1]


def _field(x, config_lib):
  if x is None:
    return 99
  if x is _VARARGS[0]:
    return 98
  return x


def _install():
  import fiddle as fdl  # pylint: disable=g-import-not-at-top
  from fiddle._src import config as config_lib  # pylint: disable=g-import-not-at-top
  from fiddle._src import partial as partial_lib  # pylint: disable=g-import-not-at-top
  _VARARGS[0] = fdl.VARARGS
  plain = (config_lib.Config, partial_lib.Partial, partial_lib.ArgFactory)
  B = config_lib.Buildable

  def wrap(method_name, describe):
    orig = getattr(B, method_name)

    def wrapper(self, *args, **kwargs):
      if (_depth() > 0 or type(self) not in plain or len(TRACES) > _MAX_TRACES
          or '__arguments__' not in object.__getattribute__(self, '__dict__')
          or '__signature_info__' not in object.__getattribute__(self, '__dict__')):
        return orig(self, *args, **kwargs)
      rec = _recorder(self)
      _tls.depth = 1
      try:
        op = None
        if not rec.dead:
          try:
            if rec.sig is None:
              rec.start(self, config_lib)
            before = None if rec.dead else rec.project(self, config_lib)
            if before is not None and 'stray' not in before:
              op = describe(rec, args, config_lib)
            else:
              rec.dead = True
          except Exception:  # pylint: disable=broad-except
            rec.dead = True
        out, exc, result = 'ok', '', None
        try:
          result = orig(self, *args, **kwargs)
          return result
        except BaseException as e:
          out, exc = 'raise', type(e).__name__
          raise
        finally:
          if op is not None and not rec.dead:
            try:
              post = rec.project(self, config_lib)
              if post is not None and not rec.dead:
                stray = post.pop('stray', None)
                ret = []
                if out == 'ok' and op['name'] in ('getitem', 'getslice'):
                  cells = before['pre'] + before['va']
                  pos = list(range(len(cells)))[args[0]] if isinstance(args[0], slice) else None
                  if pos is None:
                    i0 = len(before['pre']) if args[0] is _VARARGS[0] else args[0]
                    pos, vals = [i0 + len(cells) if i0 < 0 else i0], [result]
                  else:
                    vals = list(result)
                  ret = [_read(rec, cells, j, x, config_lib) for j, x in zip(pos, vals)]
                if not rec.dead:
                  if rec.trace is None or rec.trace['events'] and rec.trace['events'][-1]['post'] != before \
                      or (not rec.trace['events'] and rec.trace['init'] != before):
                    rec.trace = {'tid': 0, 'sig': rec.sig, 'form': type(self).__name__, 'init': before, 'events': []}
                    TRACES.append(rec.trace)
                  rec.trace['events'].append({'op': op, 'out': out, 'exc': exc, 'ret': ret, 'post': post,
                                              'stray': 1 if stray else 0})
                  if stray:
                    rec.dead = True
            except Exception:  # pylint: disable=broad-except
              rec.dead = True
      finally:
        _tls.depth = 0

    wrapper.__name__ = method_name
    wrapper.__qualname__ = f'Buildable.{method_name}'
    wrapper.__doc__ = orig.__doc__
    setattr(B, method_name, wrapper)

  def _read(rec, cells, j, v, config_lib):
    # a set cell reads as its stored leaf; an unset one as NO_VALUE or as the default object of parameter j + 1
    if 0 <= j < len(cells) and cells[j] != 0:
      return rec.leaf(v, config_lib)
    if v is config_lib.NO_VALUE:
      return -1
    return 1000 + j + 1

  def d_setattr(rec, args, config_lib):
    name, value = args
    if name.startswith('__'):
      return None
    return {'name': 'setattr', 'a': rec.name_id(name), 'b': 0, 'c': 0, 'vals': [rec.leaf(value, config_lib)]}

  def d_delattr(rec, args, config_lib):
    (name,) = args
    if name.startswith('__'):
      return None
    return {'name': 'delattr', 'a': rec.name_id(name), 'b': 0, 'c': 0, 'vals': []}

  def _key(key, config_lib, kind):
    if isinstance(key, slice):
      return {'name': kind + 'slice', 'a': _field(key.start, config_lib), 'b': _field(key.stop, config_lib),
              'c': _field(key.step, config_lib), 'vals': []}
    return {'name': kind + 'item', 'a': _field(key, config_lib), 'b': 0, 'c': 0, 'vals': []}

  def _ints(op):
    return all(isinstance(op[f], int) and not isinstance(op[f], bool) for f in ('a', 'b', 'c'))

  def d_setitem(rec, args, config_lib):
    key, value = args
    op = _key(key, config_lib, 'set')
    if not _ints(op):
      return None
    if isinstance(key, slice):
      op['vals'] = [rec.leaf(v, config_lib) for v in list(value)]
    else:
      op['vals'] = [rec.leaf(value, config_lib)]
    return op

  def d_delitem(rec, args, config_lib):
    op = _key(args[0], config_lib, 'del')
    return op if _ints(op) else None

  def d_getitem(rec, args, config_lib):
    op = _key(args[0], config_lib, 'get')
    return op if _ints(op) else None

  wrap('__setattr__', d_setattr)
  wrap('__delattr__', d_delattr)
  wrap('__setitem__', d_setitem)
  wrap('__delitem__', d_delitem)
  wrap('__getitem__', d_getitem)


def pytest_configure(config):
  if os.environ.get('FIDDLE_VERIF_TRACE_DIR'):
    _install()


def pytest_sessionfinish(session, exitstatus):
  d = os.environ.get('FIDDLE_VERIF_TRACE_DIR')
  if not d:
    return
  os.makedirs(d, exist_ok=True)
  out = [t for t in TRACES if t['events']]
  with open(os.path.join(d, f'traces-{os.getpid()}.json'), 'w') as f:
    json.dump(out, f)
