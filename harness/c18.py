"""C18 — printed paths are valid override paths; flag directives apply in order.

MC  : spec/MC_C18 (FdlGen + FdlFlags): FlatLeaves / Override on every heap in the
      bound (LeavesLaw) and the token-level theorem Parse(Print(p)) ~ p;
      spec/MC_C18F: the flag object's directive queue under every interleaving
      of parse() and reads (InOrder).
S->C: (1) as_dict_flattened / as_str_flattened of every heap: the listed leaves
      are exactly FlatLeaves, each resolves to its value; every listed leaf that
      is no tuple element is written back through utils.set_value -- once with
      its own repr (configuration must stay the same) and once with another
      literal (post-heap = Override).  (2) every parse/read history of the real
      FiddleFlag against the expected values.  (3) config_str round trip and
      call expressions with literal arguments.
"""
from __future__ import annotations

import copy
import itertools
import json
import os
import random
import re
import sys
import types

import fiddle as fdl
from absl import flags as absl_flags
from fiddle import daglish
from fiddle import printing
from fiddle._src.absl_flags import flags as fdl_flags
from fiddle._src.absl_flags import utils

from harness import common
from harness import heap as H
from harness import c02

PROP = 'C18'


def path_string(steps):
  out = ''
  for kind, key in steps:
    if kind in ('config', 'partial'):
      out += f'.s{key}'
    elif kind == 'dict':
      out += f'[{H.key_obj(key)!r}]'
    else:
      out += f'[{key}]'
  return out


def unshared(heap):
  """Canonical heap in which Buildable-free containers are duplicated per reference
  (writing a container literal back by value necessarily creates a new object)."""
  memo_hasb = {}
  def hasb(i):
    if i not in memo_hasb:
      o = heap[i - 1]
      memo_hasb[i] = o['k'] in ('config', 'partial', 'argfactory', 'tagged') or any(
          it['val'] < 0 and hasb(-it['val']) for it in o['items'])
    return memo_hasb[i]
  out = []
  ids = {}
  def visit(i):
    if hasb(i) and i in ids:
      return -ids[i]
    idx = len(out) + 1
    if hasb(i):
      ids[i] = idx
    node = {'k': heap[i - 1]['k'], 'fn': heap[i - 1]['fn'], 'items': []}
    out.append(node)
    for it in heap[i - 1]['items']:
      node['items'].append(dict(it, val=visit(-it['val']) if it['val'] < 0 else it['val']))
    return -idx
  visit(1)
  return out


def check_heap(rec):
  hp = rec['heap']
  root, objs = H.realize(hp)
  shape = {'n_objs': len(hp)}
  def feat(clause, **kw):
    return dict(shape, clause=clause, **kw)
  mism = []
  try:
    flat = printing.as_dict_flattened(root)
  except Exception as e:  # pylint: disable=broad-except
    return [(feat('printer-raises', observed=type(e).__name__), str(e)[:150])]
  exp = {}
  for path, val in rec['leaves']:
    exp.setdefault(path_string(path), []).append((path, val))
  # keys of the flattened dict have no leading dot
  def norm(k):
    return k if k.startswith('[') or k.startswith('.') else '.' + k
  got_keys = sorted(norm(k) for k in flat)
  if got_keys != sorted(exp):
    mism.append((feat('leaf-paths'), f'printed {got_keys}, spec {sorted(exp)}'))
    return mism
  if len(got_keys) != len(set(got_keys)):
    mism.append((feat('leaf-listed-twice'), f'{got_keys}'))
  lines = printing.as_str_flattened(root, include_types=False).split('\n')
  listed = [l.split(' = ')[0] for l in lines if ' = ' in l and '<[unset' not in l]
  if sorted(norm(k) for k in listed) != sorted(exp):
    mism.append((feat('str-printer-paths'), f'as_str_flattened lists {listed}'))
  overrides = {path_string(p): post for p, post in rec['overrides']}
  for k, v in flat.items():
    ks = norm(k)
    (path, specval), = exp[ks][:1]
    # soundness: the path resolves to the value
    try:
      cur = daglish.follow_path(root, utils.parse_path(k))
    except Exception as e:  # pylint: disable=broad-except
      mism.append((feat('printed-path-unparseable', observed=type(e).__name__), f'{k!r}: {e}'[:150]))
      continue
    if cur is not v and cur != v:
      mism.append((feat('path-resolves-elsewhere'), f'{k!r}'))
    if ks not in overrides:
      continue                      # inside a tuple: not an override target
    # write back its own repr: nothing may change
    c1 = copy.deepcopy(root)
    try:
      utils.set_value(c1, f'{k}={v!r}')
    except Exception as e:  # pylint: disable=broad-except
      mism.append((feat('write-back-raises', observed=type(e).__name__), f'{k}={v!r}: {e}'[:200]))
      continue
    if unshared(H.project(c1)[0]) != unshared(hp):
      mism.append((feat('write-back-same-value-changes'), f'{k}={v!r} -> {H.project(c1)[0]}'))
    # write another literal: exactly that leaf changes
    c2 = copy.deepcopy(root)
    try:
      utils.set_value(c2, f'{k}=9')
    except Exception as e:  # pylint: disable=broad-except
      mism.append((feat('override-raises', observed=type(e).__name__), f'{k}=9: {e}'[:200]))
      continue
    if H.project(c2)[0] != overrides[ks]:
      mism.append((feat('override-post-state'),
                   f'{k}=9 gave {json.dumps(H.project(c2)[0])}, spec {json.dumps(overrides[ks])}'))
  return mism


def work(lines):
  stats = {'lines': 0, 'nontrivial': 0}
  mismatches = []
  sample = None
  for line in lines:
    rec = common.decode_line(line)
    stats['lines'] += 1
    for f, msg in check_heap(rec):
      mismatches.append((f, {'heap': rec['heap'], 'message': msg[:600]}))
    if len(rec['leaves']) >= 2:
      stats['nontrivial'] += 1
    if sample is None and len(rec['leaves']) >= 2 and len(rec['heap']) >= 3:
      sample = {'heap': rec['heap'], 'leaves': [path_string(p) for p, _ in rec['leaves']]}
  return stats, mismatches, sample


# ------------------------- the flag object -----------------------------------

def two(a=0, b=0):
  return (a, b)


def base1():
  return fdl.Config(two, a=1, b=10)


def base2(a):
  return fdl.Config(two, a=a, b=20)


def double(cfg):
  cfg.a = 2 * cfg.a


def addab(cfg):
  new = copy.deepcopy(cfg)           # an immutable fiddler: returns a new config
  new.b = new.b + new.a
  return new


MODULE = types.ModuleType('c18_flag_module')
for _f in (two, base1, base2, double, addab):
  setattr(MODULE, _f.__name__, _f)

CSTR = None


def directive_text(d):
  global CSTR
  if d == 'base1':
    return 'config:base1'
  if d == 'base2':
    return 'config:base2(7)'
  if d == 'cstr':
    if CSTR is None:
      CSTR = utils.ZlibJSONSerializer().serialize(fdl.Config(two, a=3, b=30))
    return 'config_str:' + CSTR
  if d == 'set5':
    return 'set:a=5'
  if d == 'double':
    return 'fiddler:double'
  return 'fiddler:addab'


def check_history(rec):
  flag = fdl_flags.FiddleFlag(name='cfg', default_module=MODULE, default=None,
                              parser=absl_flags.ArgumentParser(), serializer=None,
                              help_string='c18')
  mism = []
  prog = [(s['op'], s['ds']) for s in rec['hist']]
  for n, step in enumerate(rec['hist']):
    if step['op'] == 'parse':
      flag.parse([directive_text(d) for d in step['ds']])
      continue
    try:
      v = flag.value
      got = ('ok', (0, 0) if v is None else (v.a, v.b))     # nothing parsed yet: the default (None)
    except Exception as e:  # pylint: disable=broad-except
      got = ('error', type(e).__name__)
    exp = ('error', None) if step['err'] else ('ok', tuple(step['val']))
    if got[0] != exp[0] or (got[0] == 'ok' and got[1] != exp[1]):
      mism.append(({'clause': 'flag-value', 'expected': exp[0], 'observed': got[0],
                    'read_no': sum(1 for s in rec['hist'][:n + 1] if s['op'] == 'read')},
                   f'history {prog[:n + 1]}: read gave {got}, spec {exp}'))
      break
    if got[0] == 'error':
      break
  return mism


def work_flags(lines):
  stats = {'lines': 0, 'nontrivial': 0}
  mismatches = []
  sample = None
  for line in lines:
    rec = common.decode_line(line)
    stats['lines'] += 1
    for f, msg in check_history(rec):
      mismatches.append((f, {'hist': rec['hist'], 'message': msg[:500]}))
    if sum(1 for s in rec['hist'] if s['op'] == 'read') >= 2:
      stats['nontrivial'] += 1
    if sample is None and len(rec['hist']) >= 4:
      sample = rec
  return stats, mismatches, sample


def config_str_roundtrip(rng, n):
  out = []
  cnt = 0
  for _ in range(n):
    hp = c02.random_heap(rng, rng.randint(2, 7), kinds=('config', 'config', 'list', 'dict', 'tuple'))
    if hp[0]['k'] != 'config':
      continue
    root, _ = H.realize(hp)
    cnt += 1
    try:
      text = utils.ZlibJSONSerializer().serialize(root)
      flag = fdl_flags.FiddleFlag(name='cfg', default_module=MODULE, default=None,
                                  parser=absl_flags.ArgumentParser(), serializer=None, help_string='x')
      flag.parse(['config_str:' + text])
      back = flag.value
      if H.project(back)[0] != H.project(root)[0] or not (back == root):
        out.append(({'clause': 'config_str-round-trip'}, f'{H.project(back)[0]}'))
    except Exception as e:  # pylint: disable=broad-except
      out.append(({'clause': 'config_str-raises', 'observed': type(e).__name__}, str(e)[:150]))
  return out, cnt


LITERALS = ['1', '-2', '2.5', "'a b'", '"q"', 'True', 'None', '[1, 2]', "{'k': (1, 2)}", '()', "b'x'",
            '1e3', "'='", "'a,b'", "'(x)'"]


def call_expressions():
  """All call expressions with up to two literal arguments (positional / keyword)."""
  out = []
  cnt = 0
  forms = []
  for a in LITERALS:
    forms.append((f'fn({a})', [a], {}))
    forms.append((f'fn(x={a})', [], {'x': a}))
    for b in LITERALS[:8]:
      forms.append((f'fn({a}, {b})', [a, b], {}))
      forms.append((f'fn({a}, y={b})', [a], {'y': b}))
      forms.append((f'fn(x={a}, y={b})', [], {'x': a, 'y': b}))
  forms += [('fn', [], {}), ('fn()', [], {}), ('mod.sub.fn(1)', ['1'], {})]
  # literals with nested brackets, and strings that hold brackets, commas, equal signs and quotes
  nested = ['((1, 2), (3, 4))', '(((1,),),)', '[[1, [2, [3]]], (4, (5, 6))]', "{'k': ((0, 0), (1, 1)), 'j': [()]}",
            "')'", "'('", "'a, b=c'", '"it\'s"', "'[)]('", "((), [], {})", "[')', '(', ((')',),)]"]
  for a in nested:
    forms.append((f'fn({a})', [a], {}))
    forms.append((f'fn(pads={a})', [], {'pads': a}))
    forms.append((f'fn(1, pads={a}, y={a})', ['1'], {'pads': a, 'y': a}))
  for text, args, kwargs in forms:
    cnt += 1
    try:
      ce = utils.CallExpression.parse(text)
    except Exception as e:  # pylint: disable=broad-except
      out.append(({'clause': 'call-expression-raises', 'observed': type(e).__name__}, f'{text}: {e}'[:120]))
      continue
    exp_args = tuple(eval(a) for a in args)  # pylint: disable=eval-used
    exp_kwargs = {k: eval(v) for k, v in kwargs.items()}  # pylint: disable=eval-used
    name = text.split('(')[0]
    if ce.func_name != name or tuple(ce.args) != exp_args or dict(ce.kwargs) != exp_kwargs or any(
        type(x) is not type(y) for x, y in zip(ce.args, exp_args)):
      out.append(({'clause': 'call-expression-value'},
                  f'{text}: parsed {ce.func_name} {ce.args} {ce.kwargs}'))
  return out, cnt


def key_alphabet_scenarios(rng, n):
  """Dict keys drawn from the statement's alphabet (quote-free, =-free strings incl. the empty
  string, non-negative ints): print, parse back, override."""
  out = []
  cnt = 0
  alphabet = 'ab Z09_-.:/[](){}#@!+*,;<>?|~\\'
  for _ in range(n):
    ln = rng.choice([0, 0, 1, 1, 2, 5])
    k = rng.choice([rng.randint(0, 30), ''.join(rng.choice(alphabet) for _ in range(ln))])
    inner = fdl.Config(H.g4, s1=1)
    cfg = fdl.Config(H.f1, s1={k: inner, 'z': 2}, s2=[inner])
    cnt += 1
    flat = printing.as_dict_flattened(cfg)
    for path, val in flat.items():
      c2 = copy.deepcopy(cfg)
      try:
        utils.set_value(c2, f'{path}=77')
      except Exception as e:  # pylint: disable=broad-except
        out.append(({'clause': 'override-raises', 'observed': type(e).__name__,
                     'key': 'empty' if k == '' else type(k).__name__}, f'{path!r}: {e}'[:150]))
        continue
      if daglish.follow_path(c2, utils.parse_path(path)) != 77:
        out.append(({'clause': 'override-post-state', 'key': repr(k)[:10]}, f'{path!r}'))
      flat2 = printing.as_dict_flattened(c2)
      changed = [p for p in flat if flat[p] != flat2.get(p)]
      shared_alias = {p for p in flat if p.endswith('.s1') and path.endswith('.s1')}
      if not set(changed) <= (shared_alias | {path}):
        out.append(({'clause': 'override-changes-other-leaves'}, f'{path!r} changed {changed}'))
  return out, cnt


def override_sequences():
  """Sequences of overrides: equal literal texts must give independent values."""
  out = []
  cfg = fdl.Config(H.f1, s1=fdl.Config(H.g4, s1=0), s2=0, s3=0)
  other = fdl.Config(H.f1, s1=0)
  for assign in ('s2=[1, 2]', 's3=[1, 2]', "s1.s1={'k': [3]}", "s1.s2={'k': [3]}"):
    utils.set_value(cfg, assign)
  utils.set_value(other, 's1=[1, 2]')
  utils.set_value(cfg, 's2[0]=9')
  utils.set_value(cfg, "s1.s1['k']=[4]")
  if cfg.s3 != [1, 2] or other.s1 != [1, 2] or cfg.s1.s2 != {'k': [3]} or cfg.s2 != [9, 2]:
    out.append(({'clause': 'override-changes-other-leaves', 'key': 'sequence'},
                f's2={cfg.s2} s3={cfg.s3} other.s1={other.s1} s1.s2={cfg.s1.s2}'))
  return out, 1


def main():
  v = common.Verdict(PROP, 'model_checking')
  quick = common.tier() == 'quick'
  consts = dict(MaxObjs=4, MaxItems=2, NLeaves=1, NKeys=2, NSlots=2, NFns=1,
                KindSet={'config', 'list', 'dict', 'tuple'}, TagChoices={0}, UnsetTagged=False, EmitOn=True)
  if not quick:
    consts.update(MaxObjs=4, NKeys=3, KindSet={'config', 'partial', 'list', 'dict', 'tuple'})
  with common.scratch() as wd:
    disp = common.Dispatcher(work, chunk=200)
    res = common.run_tlc('MC_C18', common.cfg_text(consts, constraints=['GenPrune'],
                                                   invariants=['LeavesLaw', 'PathTokensRoundTrip', 'Emit']),
                         workdir=os.path.join(wd, 'mc'), on_json=disp)
    common.require_tlc_ok(res, 'MC_C18')
    totals = {'lines': 0, 'nontrivial': 0}
    for stats, mism, sample in disp.results():
      for k in totals:
        totals[k] += stats[k]
      for f, case in mism:
        v.mismatch(f, case)
      if sample:
        v.sample(sample)
    disp = common.Dispatcher(work_flags, chunk=300)
    rf = common.run_tlc('MC_C18F', common.cfg_text(dict(MaxDirectives=4 if quick else 5, EmitOn=True),
                                                   view='View', constraints=['Bound'], invariants=['InOrder']),
                        workdir=os.path.join(wd, 'flags'), on_json=disp)
    common.require_tlc_ok(rf, 'MC_C18F')
    ftot = {'lines': 0, 'nontrivial': 0}
    for stats, mism, sample in disp.results():
      for k in ftot:
        ftot[k] += stats[k]
      for f, case in mism:
        v.mismatch(f, case)
      if sample:
        v.sample(sample)
    rng = random.Random(common.seed() * 275604541 + 15)
    cs, ncs = config_str_roundtrip(rng, 100 if quick else 1000)
    ce, nce = call_expressions()
    ka, nka = key_alphabet_scenarios(rng, 150 if quick else 1500)
    osq, nosq = override_sequences()
    for f, msg in cs + ce + ka + osq:
      v.mismatch(f, {'message': msg})
  v.coverage.update({
      'states': res.distinct + rf.distinct, 'transitions': res.generated + rf.generated,
      'traces_validated_against_impl': totals['lines'] + ftot['lines'] + ncs,
      'evaluations': totals['lines'] + ftot['lines'] + ncs + nce + nka,
      'distinct_nontrivial': totals['nontrivial'] + ftot['nontrivial'],
      'rule': 'heaps: one case per complete heap with a Buildable root (non-trivial: at least two listed leaves), '
              'each listed leaf written back twice; flag: one case per parse/read history reaching a read '
              '(non-trivial: at least two reads); config_str round trips of random configurations; call '
              'expressions with up to two literal arguments',
      'heaps': totals['lines'], 'flag_histories': ftot['lines'], 'config_str_cases': ncs,
      'call_expressions': nce, 'model': res.as_dict(), 'flag_model': rf.as_dict(), 'exhaustive': True,
  })
  v.assumptions += [
      'dict keys are quote-free, =-free non-empty strings or non-negative ints; override targets are not tuple '
      'elements; leaves are Python literals (the lexical level of path strings is outside the model)',
      'after a rejected directive (wrong first command, second base config) the flag is not used further',
  ]
  return v.finish()


if __name__ == '__main__':
  common.main_wrapper(main)
