"""C07 — copies are faithful and independent (copy, deepcopy, pickle, cast, *_with).

MC  : spec/MC_C07 — the copy operations on the abstract heap followed by one
      edit of the copy; invariants DeepFaithful, DeepDisjoint, ShallowFresh,
      ShallowValuesShared, OriginalIsSnapshot and the action property
      OriginalUnaffected.
S->C: every generated (original, copy kind, edit) is replayed: the real copy's
      projection must equal the spec's copy, the set of mutable objects shared
      by identity must have the spec's size, per-Buildable cells (argument
      dict, tag sets, history lists) must be fresh, and after the edit the
      original must report and build exactly what it did before.
"""
from __future__ import annotations

import copy
import json
import os
import pickle
import random

import fiddle as fdl
from fiddle._src import tagging

from harness import common
from harness import heap as H
from harness import c02
from harness import pool

PROP = 'C07'


def closure(root):
  """id -> object for every mutable object (Buildables, lists, dicts) reachable via arguments."""
  acc = {}
  def walk(x):
    if isinstance(x, (int, str)) or x is None or id(x) in acc:
      return
    if isinstance(x, fdl.Buildable):
      acc[id(x)] = x
      for v in x.__arguments__.values():
        walk(v)
    elif isinstance(x, (list, dict)):
      acc[id(x)] = x
      for v in (x.values() if isinstance(x, dict) else x):
        walk(v)
    elif isinstance(x, tuple):
      for v in x:
        walk(v)
  walk(root)
  return acc


def leaked_cells(orig_root, copy_root):
  """Per-Buildable mutable cells of the copy side that are the original's objects."""
  leaks = []
  oc = closure(orig_root)
  ocells = {}
  for b in oc.values():
    if isinstance(b, fdl.Buildable):
      ocells[id(b.__arguments__)] = 'arguments'
      ocells[id(b.__argument_tags__)] = 'tags-dict'
      ocells[id(b.__argument_history__)] = 'history'
      for s in b.__argument_tags__.values():
        ocells[id(s)] = 'tag-set'
      for l in b.__argument_history__.values():
        ocells[id(l)] = 'history-list'
  for b in closure(copy_root).values():
    if isinstance(b, fdl.Buildable) and id(b) not in oc:
      cells = [b.__arguments__, b.__argument_tags__, b.__argument_history__]
      cells += list(b.__argument_tags__.values()) + list(b.__argument_history__.values())
      for c in cells:
        if id(c) in ocells:
          leaks.append(ocells[id(c)])
  return leaks


def do_copy(kind, root):
  if kind == 'copy':
    return copy.copy(root)
  if kind == 'deepcopy':
    return copy.deepcopy(root)
  if kind == 'pickle':
    return pickle.loads(pickle.dumps(root))
  if kind == 'cast':
    return fdl.cast(fdl.Partial if isinstance(root, fdl.Config) else fdl.Config, root)
  if kind == 'cast_same':
    return fdl.cast(type(root), root)
  if kind == 'copy_with':
    return fdl.copy_with(root, s2=7)
  if kind == 'deepcopy_with':
    return fdl.deepcopy_with(root, s2=7)
  raise ValueError(kind)


def do_edit(cp, e):
  p = H.Projector()
  p.val(cp)
  target = p.keep[e['obj'] - 1]
  name = e['name']
  if name == 'setarg':
    setattr(target, H.slot_name(e['key']), e['arg'])
  elif name == 'delarg':
    delattr(target, H.slot_name(e['key']))
  elif name == 'settags':
    tagging.set_tags(target, H.slot_name(e['key']), H.tags_of(e['arg']))
  elif name == 'cleartags':
    tagging.clear_tags(target, H.slot_name(e['key']))
  elif name == 'append':
    target.append(e['arg'])
  else:
    raise ValueError(name)


def built_canon(root, sort_dicts=False):
  try:
    r = fdl.build(root)
  except Exception as e:  # pylint: disable=broad-except
    return 'raise:' + type(e).__name__
  p = H.Projector(sort_dicts=sort_dicts)
  rv = p.val(r)
  return [p.heap, rv]


def check_line(rec):
  mism = []
  kind = rec['kind']
  root, _ = H.realize(rec['orig'])
  before, _ = H.project(root)
  if before != rec['orig']:
    raise common.MachineryError(f'round trip: {rec["orig"]} -> {before}')
  built_before = built_canon(root)
  base = {'kind': kind, 'edit': rec['edit']['name']}
  def feat(clause, **kw):
    return dict(base, clause=clause, **kw)
  try:
    cp = do_copy(kind, root)
  except Exception as e:  # pylint: disable=broad-except
    return [(feat('copy-raises', observed=type(e).__name__), str(e)[:200])]
  got, _ = H.project(cp)
  if got != rec['copy0']:
    mism.append((feat('copy-not-faithful'), f'copy is {json.dumps(got)}, spec {json.dumps(rec["copy0"])}'))
    return mism
  oc, cc = closure(root), closure(cp)
  shared = [type(oc[i]).__name__ for i in oc if i in cc]
  if len(shared) != rec['shared']:
    mism.append((feat('sharing', observed=len(shared), expected=rec['shared']),
                 f'{len(shared)} mutable objects shared by identity ({sorted(set(shared))}), '
                 f'spec {rec["shared"]}'))
  leaks = leaked_cells(root, cp)
  if leaks:
    mism.append((feat('cells-shared', cells=sorted(set(leaks))),
                 f'copy shares per-Buildable cells with the original: {sorted(set(leaks))}'))
  if cp is root:
    mism.append((feat('not-a-new-object'), 'copy is the original object'))
  try:
    do_edit(cp, rec['edit'])
  except Exception as e:  # pylint: disable=broad-except
    mism.append((feat('edit-raises', observed=type(e).__name__), f'{rec["edit"]}: {str(e)[:150]}'))
    return mism
  got1, _ = H.project(cp)
  if got1 != rec['copy1']:
    mism.append((feat('copy-after-edit'), f'copy after {rec["edit"]} is {json.dumps(got1)}, '
                                          f'spec {json.dumps(rec["copy1"])}'))
  after, _ = H.project(root)
  if after != rec['orig']:
    mism.append((feat('original-affected'), f'original now reports {json.dumps(after)}'))
  elif built_canon(root) != built_before:
    mism.append((feat('original-builds-differently'), 'build(original) changed after editing the copy'))
  return mism


def work(lines):
  stats = {'lines': 0, 'nontrivial': 0}
  mismatches = []
  sample = None
  for line in lines:
    rec = common.decode_line(line)
    stats['lines'] += 1
    for f, msg in check_line(rec):
      mismatches.append((f, {'orig': rec['orig'], 'kind': rec['kind'], 'edit': rec['edit'],
                             'message': msg[:700]}))
    if len(rec['orig']) >= 2:
      stats['nontrivial'] += 1
    if sample is None and len(rec['orig']) >= 2 and rec['kind'] == 'deepcopy':
      sample = {k: rec[k] for k in ('orig', 'kind', 'edit', 'copy1', 'shared')}
  return stats, mismatches, sample


def random_sequences(v, rng, n):
  """C->S-style stress beyond the bound: larger configs, several edits on the copy."""
  done = 0
  for _ in range(n):
    hp = c02.random_heap(rng, rng.randint(3, 9), kinds=('config', 'config', 'list', 'dict', 'tuple'))
    if hp[0]['k'] != 'config':
      hp = [{'k': 'config', 'fn': 1, 'items': [{'key': 1, 'val': -2, 'tg': 0}]}] + [
          dict(o, items=[dict(it, val=it['val'] - 1 if it['val'] < 0 else it['val']) for it in o['items']])
          for o in hp]
    # sprinkle tags
    for o in hp:
      if o['k'] == 'config':
        for it in o['items']:
          if rng.random() < 0.3:
            it['tg'] = rng.choice([1, 2, 4, 5])
    root, _ = H.realize(hp)
    before, _ = H.project(root)
    built_before = built_canon(root)
    kind = rng.choice(['copy', 'deepcopy', 'pickle', 'cast', 'cast_same', 'copy_with', 'deepcopy_with'])
    cp = do_copy(kind, root)
    got, _ = H.project(cp)
    exp = json.loads(json.dumps(before))
    if kind == 'cast':
      exp[0]['k'] = 'partial'
    if kind.endswith('_with'):
      items = [it for it in exp[0]['items'] if it['key'] != 2]
      old = [it for it in exp[0]['items'] if it['key'] == 2]
      items.append({'key': 2, 'val': 7, 'tg': old[0]['tg'] if old else 0})
      exp[0]['items'] = sorted(items, key=lambda it: it['key'])
      root2, _ = H.realize(exp)     # canonical renumbering after the replaced child vanished
      exp, _ = H.project(root2)
    if got != exp:
      v.mismatch({'clause': 'copy-not-faithful', 'kind': kind, 'edit': 'random'},
                 {'orig': before, 'message': f'copy {json.dumps(got)[:300]}'})
      continue
    cc = closure(cp)
    oc = closure(root)
    own = [b for i, b in cc.items() if i not in oc]
    if cp is root or not own:
      v.mismatch({'clause': 'not-a-new-object', 'kind': kind, 'edit': 'random'},
                 {'orig': before, 'message': f'{kind} returned the original object (or nothing of its own)'})
      continue
    for _ in range(rng.randint(1, 4)):
      t = rng.choice(own)
      if isinstance(t, fdl.Buildable):
        ch = rng.random()
        # assignments and tag edits are valid on every parameter of the original, hence on a faithful copy
        try:
          if ch < 0.4:
            setattr(t, H.slot_name(rng.randint(1, 3)), rng.randint(20, 29))
          elif ch < 0.6:
            tagging.add_tag(t, H.slot_name(rng.randint(1, 3)), rng.choice(H.TAGS))
          elif ch < 0.8:
            sl = H.slot_name(rng.randint(1, 3))
            tagging.get_tags(t, sl)
            tagging.clear_tags(t, sl)
          else:
            try:
              delattr(t, H.slot_name(rng.randint(1, 3)))
            except AttributeError:
              pass          # (the argument is not set)
        except Exception as e:  # pylint: disable=broad-except
          v.mismatch({'clause': 'edit-on-copy-raises', 'kind': kind, 'edit': 'random'},
                     {'orig': before, 'message': f'{type(e).__name__}: {str(e)[:200]}'})
          break
      elif isinstance(t, list):
        t.append(31)
      elif isinstance(t, dict):
        t['k9'] = 32
    after, _ = H.project(root)
    if after != before or built_canon(root) != built_before:
      v.mismatch({'clause': 'original-affected', 'kind': kind, 'edit': 'random'},
                 {'orig': before, 'message': f'original after edits on the copy: {json.dumps(after)[:300]}'})
    done += 1
  return done


def main():
  v = common.Verdict(PROP, 'model_checking')
  quick = common.tier() == 'quick'
  base = dict(MaxItems=2, NLeaves=1, NKeys=1, NSlots=2, NFns=1, EmitOn=True)
  if quick:
    runs = [dict(base, MaxObjs=3, KindSet={'config', 'list', 'dict'}, TagChoices={0}, UnsetTagged=False),
            dict(base, MaxObjs=2, KindSet={'config', 'partial', 'list', 'dict', 'tuple'},
                 TagChoices={0, 5}, UnsetTagged=True)]
  else:
    # (sized with TLC alone: the quick configurations plus 0.43 M states; five kinds with tags over three
    # objects are 1.9 M states and more)
    runs = [dict(base, MaxObjs=3, KindSet={'config', 'list', 'dict'}, TagChoices={0}, UnsetTagged=False),
            dict(base, MaxObjs=2, KindSet={'config', 'partial', 'list', 'dict', 'tuple'},
                 TagChoices={0, 5}, UnsetTagged=True),
            dict(base, MaxObjs=3, KindSet={'config', 'partial', 'list', 'dict', 'tuple'},
                 TagChoices={0}, UnsetTagged=False)]
  consts = runs[0]
  invs = ['DeepFaithful', 'DeepDisjoint', 'ShallowFresh', 'ShallowValuesShared',
          'OriginalIsSnapshot', 'Emit']
  with common.scratch() as wd:
    totals = {'lines': 0, 'nontrivial': 0}
    res = None
    for n, c in enumerate(runs):
      disp = common.Dispatcher(work, chunk=500)
      r = common.run_tlc('MC_C07', common.cfg_text(c, constraints=['Prune'], invariants=invs,
                                                   properties=['OriginalUnaffected']),
                         workdir=os.path.join(wd, f'mc{n}'), on_json=disp)
      common.require_tlc_ok(r, 'MC_C07')
      for stats, mism, sample in disp.results():
        for k in totals:
          totals[k] += stats[k]
        for f, case in mism:
          v.mismatch(f, case)
        if sample:
          v.sample(sample)
      if res is None:
        res = r
      else:
        res.distinct += r.distinct
        res.generated += r.generated
        res.lines += r.lines
    rng = random.Random(common.seed() * 49979687 + 4)
    nrand = random_sequences(v, rng, 400 if quick else 4000)
    # positional-only / *args / keyword-only / **kwargs argument stores (FdlStore states) through every codec
    from harness import storecodec  # pylint: disable=g-import-not-at-top
    sc = storecodec.run(v, wd, quick, storecodec.COPY_CODECS)
  v.coverage.update({
      'store_states_round_tripped': sc,
      'states': res.distinct, 'transitions': res.generated,
      'traces_validated_against_impl': totals['lines'] + nrand,
      'evaluations': totals['lines'] + nrand, 'distinct_nontrivial': totals['nontrivial'],
      'rule': 'one case per TLC state in phase "edited": (original heap, copy kind of 6, one edit on an '
              'object of the copy); non-trivial = original with at least two objects. Plus random larger '
              'configurations with 1-4 edits on the copy.',
      'model': res.as_dict(), 'random_sequences': nrand, 'exhaustive': True,
      'bounds': {k: (sorted(x) if isinstance(x, set) else x) for k, x in consts.items()},
  })
  v.assumptions += [
      'tuples are immutable: identity sharing of tuples between original and copy is not counted',
      'history entries are immutable records shared by design; history lists must be distinct objects',
  ]
  return v.finish()


if __name__ == '__main__':
  common.main_wrapper(main)
