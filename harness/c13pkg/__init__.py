"""Package used by the C10/C13 import-naming pairs (a sub-module whose last name equals a top-level module's)."""
