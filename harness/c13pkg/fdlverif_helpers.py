"""Sub-module twin of the top-level module /verif/fdlverif_helpers.py."""


def make(s1=0, s2=0):
  return ('harness.c13pkg.fdlverif_helpers.make', s1, s2)
