"""C08 — traversal paths are sound and complete; identity traversal rebuilds faithfully.

MC  : spec/MC_C08 (FdlGen + FdlPaths): PathsSound, PathsPartition,
      ClausesSatisfiable on every complete heap in the bound.
S->C: each heap is realised; daglish.iterate (basic / memoized / memoized without
      internables), collect_paths_by_id, State.get_all_paths, the identity
      map_children traversal and the legacy traversals are compared with the
      specification's AllPaths / PathsTo.
C->S: larger random structures and hand-listed shapes (defaultdict, named tuples,
      empty containers, shared interned tuples, positional Buildable arguments,
      a node type with temporaries) are projected, their streams recorded and
      judged by spec/Trace_C08.  Cycles are a scenario list (must raise).
"""
from __future__ import annotations

import collections
import json
import os
import random
import signal

import fiddle as fdl
from fiddle import daglish
from fiddle._src.experimental import daglish_legacy

from harness import common
from harness import heap as H
from harness import c02
from harness import pool

PROP = 'C08'


class Namer:
  """Maps real objects of a realised/projected structure to abstract ids."""

  def __init__(self, root):
    self.p = H.Projector()
    self.p.val(root)
    self.root = root

  @property
  def heap(self):
    return self.p.heap

  def vid(self, v):
    if isinstance(v, int) and not isinstance(v, bool):
      return v
    i = self.p.ids.get(id(v))
    if i is None:
      return 0
    # guard against id reuse: the projector keeps every object alive
    return -i if self.p.keep[i - 1] is v else 0

  def apath(self, path):
    """Real daglish path -> [[kind, key], ...] by following it from the root."""
    cur = self.root
    out = []
    for el in path:
      i = self.p.ids.get(id(cur))
      kind = self.heap[i - 1]['k'] if i else '?'
      if isinstance(el, daglish.Attr):
        if kind == 'ntuple':
          key = cur._fields.index(el.name)
        else:
          key = H._slot_of(el.name)
      elif isinstance(el, daglish.Index):
        key = el.index if kind not in ('config', 'partial') else 100 + el.index
      elif isinstance(el, daglish.Key):
        key = H._key_of(el.key)
      else:
        key = ['?', repr(el)]
      out.append([kind, key])
      cur = el.follow(cur)
    return out


def _norm(pairs):
  return sorted(json.dumps(p) for p in pairs)


def streams(root, nm):
  """All observation streams of one real structure, in abstract form."""
  out = {}
  out['basic'] = [[nm.apath(p), nm.vid(v)] for v, p in daglish.iterate(root, memoized=False)]
  out['memo'] = [[nm.apath(p), nm.vid(v)] for v, p in daglish.iterate(root, memoized=True)]
  out['memo_ni'] = [[nm.apath(p), nm.vid(v)]
                    for v, p in daglish.iterate(root, memoized=True, memoize_internables=False)]
  by_id = daglish.collect_paths_by_id(root, memoizable_only=True)
  byid = [[] for _ in nm.heap]
  extra = 0
  for k, paths in by_id.items():
    i = nm.p.ids.get(k)
    if i is None:
      extra += 1
      continue
    byid[i - 1] = [nm.apath(p) for p in paths]
  out['byid'] = byid
  out['byid_extra'] = extra
  # State.get_all_paths from inside a memoized traversal
  gap = [[] for _ in nm.heap]
  def visit(value, state):
    v = nm.vid(value)
    if v < 0:
      gap[-v - 1] = [nm.apath(p) for p in state.get_all_paths()]
    return state.map_children(value)
  rebuilt = daglish.MemoizedTraversal.run(visit, root)
  out['gap'] = gap
  rb, _ = H.project(rebuilt)
  out['rebuilt'] = rb
  out['rebuilt_obj'] = rebuilt
  # legacy traversals
  leg = []
  def lfn(path, value):
    leg.append([nm.apath(path), nm.vid(value)])
    return (yield)
  try:
    daglish_legacy.traverse_with_path(lfn, root)
    out['legacy_basic'] = leg
  except Exception as e:  # pylint: disable=broad-except
    out['legacy_basic'] = 'raise:' + type(e).__name__
  lm = []
  def mfn(paths, value):
    lm.append([[nm.apath(p) for p in paths], nm.vid(value)])
    return (yield)
  try:
    daglish_legacy.memoized_traverse(mfn, root)
    out['legacy_memo'] = lm
  except Exception as e:  # pylint: disable=broad-except
    out['legacy_memo'] = 'raise:' + type(e).__name__
  return out


def fresh_objects(orig, rebuilt):
  """Mutable containers / Buildables of the rebuilt structure that are the original's."""
  a = c02.mutable_ids(orig)
  shared = []
  def walk(x, seen):
    if isinstance(x, (int, str)) or id(x) in seen:
      return
    seen.add(id(x))
    if isinstance(x, (list, dict, fdl.Buildable)) and id(x) in a:
      shared.append(type(x).__name__)
    if isinstance(x, fdl.Buildable):
      for v in x.__arguments__.values():
        walk(v, seen)
    elif isinstance(x, (list, tuple)):
      for v in x:
        walk(v, seen)
    elif isinstance(x, dict):
      for v in x.values():
        walk(v, seen)
  walk(rebuilt, set())
  return shared


def check_heap(rec):
  mism = []
  hp = rec['heap']
  root, objs = H.realize(hp)
  nm = Namer(root)
  if nm.heap != hp:
    raise common.MachineryError(f'projection round trip failed: {hp} -> {nm.heap}')
  st = streams(root, nm)
  shape = {'n_objs': len(hp)}
  def feat(clause):
    return dict(shape, clause=clause)
  allp = _norm(rec['allpaths'])
  if _norm(st['basic']) != allp:
    mism.append((feat('basic-iterate'), f'un-memoized iterate reported {st["basic"]}, spec {rec["allpaths"]}'))
  if isinstance(st['legacy_basic'], str) or _norm(st['legacy_basic']) != allp:
    mism.append((feat('legacy-traverse_with_path'), f'reported {st["legacy_basic"]}'))
  allset = set(allp)
  def internable(i):
    o = hp[i - 1]
    return o['k'] == 'tuple' and all(it['val'] > 0 or internable(-it['val']) for it in o['items'])
  for name in ('memo', 'memo_ni'):
    s = st[name]
    objs_seen = [v for _, v in s if v < 0]
    if name == 'memo_ni':
      # internable tuples are deliberately not memoized: at least once each
      objs_seen = sorted(set(v for v in objs_seen if internable(-v))
                         | set()) + [v for v in objs_seen if not internable(-v)]
    paths_seen = [json.dumps(p) for p, _ in s]
    if any(json.dumps(pr) not in allset for pr in s):
      mism.append((feat(name + '-unsound'), f'{s}'))
    elif sorted(objs_seen) != sorted(-i for i in range(1, len(hp) + 1)):
      mism.append((feat(name + '-object-count'), f'objects reported {objs_seen}'))
    elif len(set(paths_seen)) != len(paths_seen):
      mism.append((feat(name + '-path-twice'), f'{s}'))
  for name in ('byid', 'gap'):
    for i, paths in enumerate(st[name]):
      exp = rec['pathsto'][i]
      is_empty_tuple = hp[i]['k'] == 'tuple' and not hp[i]['items']
      if name == 'byid' and is_empty_tuple:
        continue                     # () is not memoizable: excluded by the API contract
      if _norm(paths) != _norm(exp):
        mism.append((feat(name + '-paths'), f'object {i + 1}: {paths}, spec {exp}'))
        break
  if st['byid_extra']:
    mism.append((feat('byid-extra-ids'), f'{st["byid_extra"]} ids that are no object of the structure'))
  if st['rebuilt'] != hp:
    mism.append((feat('rebuild-structure'), f'{st["rebuilt"]}'))
  else:
    sh = fresh_objects(root, st['rebuilt_obj'])
    if sh:
      mism.append((feat('rebuild-shares'), f'rebuilt structure shares {sh} with the original'))
  if isinstance(st['legacy_memo'], str):
    mism.append((feat('legacy-memoized_traverse'), st['legacy_memo']))
  else:
    for paths, v in st['legacy_memo']:
      if v < 0 and _norm(paths) != _norm(rec['pathsto'][-v - 1]):
        mism.append((feat('legacy-memoized-paths'), f'object {-v}: {paths}'))
        break
  return mism


def work(lines):
  stats = {'lines': 0, 'nontrivial': 0}
  mismatches = []
  sample = None
  for line in lines:
    rec = common.decode_line(line)
    stats['lines'] += 1
    for f, msg in check_heap(rec):
      mismatches.append((f, {'heap': rec['heap'], 'message': msg[:600]}))
    if len(rec['allpaths']) > len(rec['heap']):
      stats['nontrivial'] += 1
    if sample is None and len(rec['heap']) >= 3:
      sample = {'heap': rec['heap'], 'pathsto': rec['pathsto']}
  return stats, mismatches, sample


# ----------------------------------------------------------------------------
# C->S: real structures -> records for Trace_C08
# ----------------------------------------------------------------------------

def posfn(a, b=2, /, *rest, k=0):
  return (a, b, rest, k)


def special_structures():
  shared_list = [1, 2]
  shared_t = (1, 2)               # internable, shared on purpose
  dd = collections.defaultdict(list)
  dd['k1'] = shared_list
  dd['k2'] = []
  cfg = fdl.Config(H.f1, s1=shared_list, s2={'k1': shared_list})
  out = [
      ('defaultdict', [dd, dd['k1']]),
      ('ntuple', H.NT2(shared_list, H.NT2(1, shared_list))),
      ('empty-containers', [[], {}, (), fdl.Config(H.f1), [[]]]),
      ('diamond', fdl.Config(H.f1, s1=cfg, s2=[cfg, cfg], s3=(cfg,))),
      ('positional', fdl.Config(posfn, cfg, shared_list, cfg, [cfg], k=shared_list)),
      ('partial', fdl.Partial(H.f1, s1=fdl.Config(H.g4, s1=shared_list), s2=shared_list)),
  ]
  return out, ('interned-shared', [shared_t, shared_t, [shared_t]])


def record_structure(tid, name, root):
  nm = Namer(root)
  st = streams(root, nm)
  def clean(pairs):
    return [[p, v] for p, v in pairs]
  ok_keys = all(isinstance(it['key'], int) for o in nm.heap for it in o['items'])
  return {'tid': tid, 'name': name, 'heap': nm.heap, 'basic': clean(st['basic']),
          'memo': clean(st['memo']), 'byid': st['byid'], 'rebuilt': st['rebuilt'],
          'abstractable': ok_keys and not st['byid_extra']}


def validate_records(v, recs, wd):
  os.makedirs(wd, exist_ok=True)
  path = os.path.join(wd, 'c08traces.json')
  keys = ('tid', 'heap', 'basic', 'memo', 'byid', 'rebuilt')
  with open(path, 'w') as f:
    json.dump([{k: r[k] for k in keys} for r in recs], f)
  verdicts = {}
  def on_json(line):
    r = common.decode_line(line)
    verdicts[r['tid']] = r
  res = common.run_tlc('Trace_C08', common.cfg_text({}, init='TInit', next_='TNext'),
                       workdir=os.path.join(wd, 'tr'), on_json=on_json, workers=1,
                       env={'TRACE_FILE': path})
  common.require_tlc_ok(res, 'Trace_C08')
  if len(verdicts) != len(recs):
    raise common.MachineryError(f'Trace_C08 judged {len(verdicts)} of {len(recs)} records')
  acc = 0
  for r in recs:
    vd = verdicts[r['tid']]
    if vd['ok']:
      acc += 1
    else:
      v.mismatch({'clause': 'trace-rejected', 'failed': vd['failed'], 'structure': r['name']},
                 {'heap': r['heap'], 'message': f'stream {vd["failed"]} rejected by Trace_C08: '
                                                f'{json.dumps(r.get(vd["failed"], ""))[:400]}'})
  return acc


class _Alarm(Exception):
  pass


def cycle_scenarios():
  """A reference cycle must be reported as an error, never diverge."""
  out = []
  def cases():
    l = [1]
    l.append(l)
    yield 'list-self', l
    d = {}
    d['k1'] = [d]
    yield 'dict-via-list', d
    c = fdl.Config(H.f1)
    c.s1 = [c]
    yield 'config-self', c
    a = fdl.Config(H.f1)
    b = fdl.Config(H.g4, s1=a)
    a.s2 = {'k1': b}
    yield 'config-cycle-2', a
  apis = {
      'iterate-memoized': lambda r: list(daglish.iterate(r, memoized=True)),
      'iterate-basic': lambda r: list(daglish.iterate(r, memoized=False)),
      'collect_paths_by_id': lambda r: daglish.collect_paths_by_id(r, memoizable_only=True),
      'identity-map': lambda r: daglish.MemoizedTraversal.run(lambda v, s: s.map_children(v), r),
      'build': fdl.build,
  }
  def handler(signum, frame):
    raise _Alarm()
  old = signal.signal(signal.SIGALRM, handler)
  try:
    for cname, root in cases():
      for aname, api in apis.items():
        signal.alarm(20)
        try:
          api(root)
          res = 'returned'
        except _Alarm:
          res = 'diverged'
        except RecursionError:
          res = 'RecursionError'
        except Exception as e:  # pylint: disable=broad-except
          res = 'error:' + type(e).__name__
        finally:
          signal.alarm(0)
        if res in ('returned', 'diverged'):
          out.append(({'clause': 'cycle', 'structure': cname, 'api': aname, 'observed': res},
                      f'{aname} on {cname}: {res}'))
  finally:
    signal.signal(signal.SIGALRM, old)
  return out, len(apis) * 4


class Box:
  """A node type known only to a custom registry."""

  def __init__(self, inner=None):
    self.inner = inner


def custom_registry_cycles():
  """Cycle detection must also work for traversals with their own registry."""
  reg = daglish.NodeTraverserRegistry(use_fallback=True)
  reg.register_node_traverser(Box, flatten_fn=lambda b: ((b.inner,), None),
                              unflatten_fn=lambda v, _: Box(v[0]),
                              path_elements_fn=lambda b: (daglish.Attr('inner'),))
  out = []
  cases = []
  a = Box()
  a.inner = a
  cases.append(('box-self', a))
  b1, b2, b3 = Box(), Box(), Box()
  b1.inner, b2.inner, b3.inner = b2, b3, b1
  cases.append(('box-cycle-3', b1))
  for name, root in cases:
    def fn(value, state):
      return state.map_children(value)
    try:
      daglish.MemoizedTraversal(fn, root, registry=reg).initial_state().call(root)
      res = 'returned'
    except RecursionError:
      res = 'RecursionError'
    except ValueError:
      res = 'ValueError'
    except Exception as e:  # pylint: disable=broad-except
      res = 'error:' + type(e).__name__
    if res != 'ValueError':
      out.append(({'clause': 'cycle', 'structure': name, 'api': 'memoized-custom-registry',
                   'observed': res},
                  f'memoized traversal with a custom registry on {name}: {res} (cycle must be '
                  f'reported by the traversal, not by exhausting the stack)'))
  return out


def custom_registry_streams():
  """Every traversal honours the registry it was given: a node type known only to that registry is
  traversed, its descendants are reported (un-memoized and memoized iterate, collect_paths_by_id)."""
  reg = daglish.NodeTraverserRegistry(use_fallback=True)
  reg.register_node_traverser(Box, flatten_fn=lambda b: ((b.inner,), None),
                              unflatten_fn=lambda v, _: Box(v[0]),
                              path_elements_fn=lambda b: (daglish.Attr('inner'),))
  inner = [1, [2]]
  root = [Box(inner), {'k1': Box([3, Box(inner)])}]
  exp, exp_inner = [], []
  def walk(x, path):
    exp.append(daglish.path_str(path))
    if x is inner:
      exp_inner.append(daglish.path_str(path))
    if isinstance(x, Box):
      walk(x.inner, path + (daglish.Attr('inner'),))
    elif isinstance(x, list):
      for i, y in enumerate(x):
        walk(y, path + (daglish.Index(i),))
    elif isinstance(x, dict):
      for k, y in x.items():
        walk(y, path + (daglish.Key(k),))
  walk(root, ())
  out = []
  got = sorted(daglish.path_str(p) for _, p in daglish.iterate(root, memoized=False, registry=reg))
  if got != sorted(exp):
    out.append(({'clause': 'custom-registry-paths', 'api': 'iterate-basic'},
                f'un-memoized iterate with its own registry reported {len(got)} of {len(exp)} paths: {got}'))
  memo = [(v, p) for v, p in daglish.iterate(root, memoized=True, registry=reg)]
  if any(daglish.path_str(p) not in exp for _, p in memo) or not any(v is inner for v, _ in memo):
    out.append(({'clause': 'custom-registry-paths', 'api': 'iterate-memoized'},
                f'memoized iterate with its own registry: {[daglish.path_str(p) for _, p in memo]}'))
  by_id = daglish.collect_paths_by_id(root, memoizable_only=True, registry=reg)
  got_inner = sorted(daglish.path_str(p) for p in by_id.get(id(inner), []))
  if got_inner != sorted(exp_inner):
    out.append(({'clause': 'custom-registry-paths', 'api': 'collect_paths_by_id'},
                f'paths of the shared list: {got_inner}, expected {exp_inner}'))
  return out


def posgap(a=1, b=2, /, c=3, *rest, k=0):
  return (a, b, c, rest, k)


def positional_gap_scenarios():
  """Positional Buildable arguments whose cells are not a gap-free prefix: paths stay sound."""
  out = []
  def mk(kind):
    x, y, z, w = [1], [2], [3], [4]
    if kind == 'unset-before-set':
      c = fdl.Config(posgap)
      c[1] = y
      vals = [y]
    elif kind == 'first-deleted':
      c = fdl.Config(posgap, x, y, z, w)
      del c[0]
      vals = [y, z, w]
    else:   # a positional-or-keyword parameter back at its default below *args
      c = fdl.Config(posgap, x, y, z, w, [5])
      del c.c
      vals = [x, y, w]
    return c, vals
  for kind in ('unset-before-set', 'first-deleted', 'default-below-varargs'):
    for api in ('basic', 'memoized', 'by-id'):
      c, vals = mk(kind)
      root = [c, {'k1': c}]
      try:
        if api == 'by-id':
          by_id = daglish.collect_paths_by_id(root, memoizable_only=True)
          pairs = [(v, p) for v in vals for p in by_id.get(id(v), [])]
          complete = all(len(by_id.get(id(v), [])) == 2 for v in vals)
        else:
          allp = list(daglish.iterate(root, memoized=(api == 'memoized')))
          pairs = [(v, p) for v, p in allp if any(v is x for x in vals)]
          complete = all(any(v is x for v, _ in pairs) for x in vals)
        sound = all(daglish.follow_path(root, p) is v for v, p in pairs)
      except Exception as e:  # pylint: disable=broad-except
        out.append(({'clause': 'positional-gap-paths', 'shape': kind, 'api': api, 'observed': type(e).__name__},
                    f'{type(e).__name__}: {str(e)[:200]}'))
        continue
      if not (sound and complete):
        out.append(({'clause': 'positional-gap-paths', 'shape': kind, 'api': api,
                     'observed': 'unsound' if not sound else 'incomplete'},
                    f'{[(daglish.path_str(p)) for _, p in pairs]}'))
  return out


class Span:
  """Node whose flatten creates fresh primitive leaves (big ints, strings, floats)."""

  def __init__(self, lo, hi):
    self.lo, self.hi = lo, hi

  def expand(self):
    for i in range(self.lo, self.hi):
      yield 10**12 + i
      yield 'item-%d' % i
      yield i + 0.5


def primitive_temporaries():
  try:
    daglish.register_node_traverser(
        Span, flatten_fn=lambda s: (tuple(s.expand()), (s.lo, s.hi)),
        unflatten_fn=lambda values, meta: list(values),
        path_elements_fn=lambda s: tuple(daglish.Index(j) for j in range(3 * (s.hi - s.lo))))
  except Exception:  # pylint: disable=broad-except
    pass
  out = []
  n = 200
  root = {'spans': [Span(7 * k, 7 * k + 5) for k in range(n)]}
  def digest(v):
    if isinstance(v, int):
      return ('big', v - 10**12)
    if isinstance(v, str):
      return ('name', int(v[5:]))
    return ('half', int(v))
  exp = [d for sp in root['spans'] for i in range(sp.lo, sp.hi)
         for d in (('big', i), ('name', i), ('half', i))]
  got = [digest(v) for v, p in daglish.iterate(root, memoized=True)
         if isinstance(v, (int, str, float)) and len(p) == 3]
  if got != exp:
    out.append(({'clause': 'temporaries-memoized-children', 'observed': len(got), 'expected': len(exp)},
                f'memoized iterate reported {len(got)} of {len(exp)} fresh primitive children'))
  rb = daglish.MemoizedTraversal.run(lambda v, s: s.map_children(v), root)
  flat = [digest(v) for lst in rb['spans'] for v in lst]
  if flat != exp:
    out.append(({'clause': 'temporaries-rebuild-wrong', 'kind': 'primitives'},
                f'identity rebuild kept {sum(1 for a, b in zip(flat, exp) if a == b)} of {len(exp)} children'))
  return out


def temporaries_scenarios():
  """Node type whose flatten creates temporaries (fresh lists at every call)."""
  c02.temporaries_scenario()      # registers Temp
  out = []
  rows = [[10 * r + c for c in range(3)] for r in range(4)]
  root = [c02.Temp([[c02.Temp(rows)], [c02.Temp(rows)]])]
  # soundness of the un-memoized stream: every reported leaf path resolves to that leaf
  basic = list(daglish.iterate(root, memoized=False))
  bad = 0
  for v, p in basic:
    if isinstance(v, int):
      try:
        if daglish.follow_path(root, p) != v:
          bad += 1
      except Exception:  # follow through a custom node needs the path element to work
        pass
  if bad:
    out.append(({'clause': 'temporaries-basic-unsound', 'observed': bad}, f'{bad} leaf paths wrong'))
  # all-paths query on the objects the structure owns (the Temp instances; the lists handed out by
  # flatten die during the walk, so entries under their recycled ids say nothing about any object)
  wrong = 0
  for nrows in (1, 2, 3, 4, 8):
    for depth in (1, 2, 3):
      rws = [[10 * r + c for c in range(3)] for r in range(nrows)]
      t = c02.Temp(rws)
      for _ in range(depth):
        t = c02.Temp([[t], [c02.Temp(rws)]])
      expect = {}
      def walk(x, path):
        if isinstance(x, c02.Temp):
          expect.setdefault(id(x), []).append(path)
          for i, row in enumerate(x.rows):
            for j, y in enumerate(row):
              walk(y, path + (daglish.Index(i), daglish.Index(j)))
      walk(t, (daglish.Index(0),))
      by_id = daglish.collect_paths_by_id([t], memoizable_only=True)
      wrong += sum(1 for k, ps in expect.items() if sorted(map(str, by_id.get(k, []))) != sorted(map(str, ps)))
  if wrong:
    out.append(({'clause': 'temporaries-paths-of-owned-objects', 'api': 'collect_paths_by_id'},
                f'{wrong} objects owned by the structure have wrong path lists'))
  def mfn(paths, value):
    return (yield)
  try:
    daglish_legacy.memoized_traverse(mfn, root)
  except Exception as e:  # pylint: disable=broad-except
    out.append(({'clause': 'temporaries-legacy-memoized-raises', 'observed': type(e).__name__},
                f'daglish_legacy.memoized_traverse raised {type(e).__name__}: {str(e)[:80]}'))
  # identity rebuild must preserve the rows
  rb = daglish.MemoizedTraversal.run(lambda v, s: s.map_children(v), root)
  got = [[list(r) for r in t.rows] for row in rb[0].rows for t in row]
  if got != [rows, rows]:
    out.append(({'clause': 'temporaries-rebuild-wrong'}, f'{got}'))
  return out


def main():
  v = common.Verdict(PROP, 'model_checking')
  quick = common.tier() == 'quick'
  gen = dict(MaxObjs=4, MaxItems=2, NLeaves=1, NKeys=1 if quick else 2, NSlots=2, NFns=1,
             KindSet={'config', 'list', 'dict', 'tuple'}, TagChoices={0}, UnsetTagged=False,
             EmitOn=True)
  if not quick:
    gen = dict(gen, KindSet={'config', 'list', 'dict', 'tuple', 'ntuple'})
  invs = ['PathsSound', 'PathsPartition', 'ClausesSatisfiable', 'EmitHeap']
  with common.scratch() as wd:
    disp = common.Dispatcher(work, chunk=300)
    res = common.run_tlc('MC_C08', common.cfg_text(gen, constraints=['GenPrune'], invariants=invs),
                         workdir=os.path.join(wd, 'gen'), on_json=disp)
    common.require_tlc_ok(res, 'MC_C08')
    totals = {'lines': 0, 'nontrivial': 0}
    for stats, mism, sample in disp.results():
      for k in totals:
        totals[k] += stats[k]
      for f, case in mism:
        v.mismatch(f, case)
      if sample:
        v.sample(sample)
    # C->S
    rng = random.Random(common.seed() * 32452843 + 3)
    recs = []
    for _ in range(300 if quick else 3000):
      hp = c02.random_heap(rng, rng.randint(2, 8 if quick else 12))
      root, _ = H.realize(hp)
      recs.append(record_structure(len(recs) + 1, 'random', root))
    specials, interned = special_structures()
    for name, root in specials:
      recs.append(record_structure(len(recs) + 1, name, root))
    unabs = [r['name'] for r in recs if not r['abstractable']]
    if unabs:
      raise common.MachineryError(f'structures not abstractable: {unabs}')
    # binding demo: drop one pair of one stream -> must be rejected
    big = next(r for r in recs if len(r['basic']) > 3)
    vneg = common.Verdict(PROP, 'model_checking')
    vneg.kf.entries = []
    if validate_records(vneg, [dict(big, tid=1, basic=big['basic'][:-1])], os.path.join(wd, 'neg')):
      raise common.MachineryError('Trace_C08 accepted a stream with a missing pair')
    accepted = validate_records(v, recs, os.path.join(wd, 'c2s'))
    cyc, ncyc = cycle_scenarios()
    for f, msg in (cyc + temporaries_scenarios() + custom_registry_cycles() + primitive_temporaries()
                   + custom_registry_streams() + positional_gap_scenarios()):
      v.mismatch(f, {'message': msg})
  v.coverage.update({
      'states': res.distinct, 'transitions': res.generated,
      'traces_validated_against_impl': totals['lines'] + len(recs),
      'evaluations': totals['lines'] + len(recs) + ncyc,
      'distinct_nontrivial': totals['nontrivial'],
      'rule': 'S->C: one case per complete canonical heap from TLC, eight observation streams each; '
              'non-trivial = more paths than objects (something nested or shared). C->S: random heaps of up '
              'to 8/12 objects and six hand-listed shapes judged by Trace_C08; 4 cyclic structures x 5 APIs.',
      'c2s_records': len(recs), 'c2s_accepted': accepted, 'cycle_cases': ncyc,
      'generation_model': res.as_dict(), 'exhaustive': True,
  })
  v.assumptions += [
      'shared internable tuples: the statement speaks of distinct mutable objects; identity of leaf-only '
      'tuples is not compared (the generator does not share them)',
      'RecursionError counts as "reported as an error" for the un-memoized traversal of a cycle',
  ]
  return v.finish()


if __name__ == '__main__':
  common.main_wrapper(main)
