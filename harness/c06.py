"""C06 — == on Buildables is an equivalence relation congruent with build.

MC  : spec/MC_C06 (FdlGen + FdlEq): pairs (x, y) with y a deep copy of x changed
      by one generic rewrite.  Equiv (level A) decides the expected result; TLC
      checks that fiddle's comparison algorithm (level B, EqImpl) equals Equiv,
      that Equiv implies identical built graphs (Congruence) and Symmetric.
      Negative control: the algorithm as found (AliasFix = FALSE) must differ.
S->C: each pair is realised (y with a different edit history): x == y, y == x,
      x != y, x == x never raise and agree with Equiv; equal pairs are built and
      the built graphs compared.
C->S: random chains x -> y -> z of rewrites on larger configurations; the real
      verdicts are judged by spec/Trace_C06 (Equiv) and checked for transitivity.
"""
from __future__ import annotations

import copy
import json
import os
import random

import fiddle as fdl

from harness import common
from harness import heap as H
from harness import c02
from harness import c07
from harness import pool

PROP = 'C06'


class NoisyRealizer(H.Realizer):
  """Realises Buildables through a different edit history (reverse order, set-then-delete noise)."""

  def obj(self, i):
    if i in self.objs:
      return self.objs[i]
    o = self.heap[i - 1]
    if o['k'] not in ('config', 'partial'):
      return super().obj(i)
    r = self.types[o['k']](self.fn_for(i, o))
    items = [it for it in o['items'] if it['val'] != 0]
    used = {it['key'] for it in items}
    free = [s for s in (1, 2, 3) if s not in used]
    if free:
      setattr(r, H.slot_name(free[0]), 12345)
    for it in reversed(items):
      setattr(r, H.slot_name(it['key']), 777)
      setattr(r, H.slot_name(it['key']), self.val(it['val']))
    if free:
      delattr(r, H.slot_name(free[0]))
    for it in o['items']:
      for t in H.tags_of(it.get('tg', 0)):
        fdl.add_tag(r, H.slot_name(it['key']), t)
    self.objs[i] = r
    return r


def safe(fn):
  try:
    return fn()
  except Exception as e:  # pylint: disable=broad-except
    return 'raise:' + type(e).__name__


def verdicts(x, y):
  return {'xy': safe(lambda: x == y), 'yx': safe(lambda: y == x),
          'ne': safe(lambda: x != y), 'xx': safe(lambda: x == x),  # pylint: disable=comparison-with-itself
          'yy': safe(lambda: y == y)}  # pylint: disable=comparison-with-itself


def check_pair(rec, noisy):
  x, _ = H.realize(rec['x'])
  rz = (NoisyRealizer if noisy else H.Realizer)(rec['y'])
  y = rz.obj(1)
  if H.project(y)[0] != rec['y']:
    raise common.MachineryError(f'round trip y: {rec["y"]} -> {H.project(y)[0]}')
  v = verdicts(x, y)
  exp = rec['eq']
  base = {'rw': rec['rw'], 'expected_equal': exp, 'history_noise': noisy}
  def feat(clause, **kw):
    return dict(base, clause=clause, **kw)
  mism = []
  raised = {k: r for k, r in v.items() if isinstance(r, str)}
  if raised:
    return [(feat('raises', observed=sorted(set(raised.values()))[0]), f'comparison raised: {raised}')]
  if v['xx'] is not True or v['yy'] is not True:
    mism.append((feat('reflexive'), f'x == x: {v["xx"]}, y == y: {v["yy"]}'))
  if v['xy'] != v['yx']:
    mism.append((feat('symmetric'), f'x == y: {v["xy"]}, y == x: {v["yx"]}'))
  if v['ne'] == v['xy']:
    mism.append((feat('ne-consistent'), f'x == y: {v["xy"]}, x != y: {v["ne"]}'))
  if v['xy'] != exp:
    mism.append((feat('verdict', observed=v['xy']),
                 f'x == y is {v["xy"]}, Equiv says {exp}'))
  if v['xy'] is True:
    bx, by = c07.built_canon(x, sort_dicts=True), c07.built_canon(y, sort_dicts=True)
    if bx != by:
      mism.append((feat('congruence'), f'equal configurations build {json.dumps(bx)[:200]} vs '
                                       f'{json.dumps(by)[:200]}'))
  return mism


def work(lines):
  stats = {'lines': 0, 'nontrivial': 0, 'equal': 0}
  mismatches = []
  sample = None
  for n, line in enumerate(lines):
    rec = common.decode_line(line)
    stats['lines'] += 1
    for f, msg in check_pair(rec, noisy=(n % 2 == 1)):
      mismatches.append((f, {'x': rec['x'], 'y': rec['y'], 'message': msg[:600]}))
    if rec['rw'] != 'copy':
      stats['nontrivial'] += 1
    stats['equal'] += 1 if rec['eq'] else 0
    if sample is None and rec['rw'] == 'redirect' and len(rec['x']) >= 3:
      sample = {k: rec[k] for k in ('x', 'y', 'rw', 'eq')}
  return stats, mismatches, sample


# ----------------------------------------------------------------------------
# C->S: chains on larger configurations
# ----------------------------------------------------------------------------

def random_rewrite(rng, hp):
  """One generic rewrite on a canonical heap (returns a new canonical heap)."""
  h = json.loads(json.dumps(hp))
  for _ in range(20):
    i = rng.randrange(len(h))
    o = h[i]
    choice = rng.random()
    if o['k'] in ('config', 'partial') and choice < 0.35:
      s = rng.randint(1, 3)
      v = rng.choice([1, 2, 3, 1000 + s])
      o['items'] = sorted([it for it in o['items'] if it['key'] != s]
                          + [{'key': s, 'val': v, 'tg': 0}], key=lambda it: it['key'])
      break
    if o['k'] in ('config', 'partial') and choice < 0.45:
      o['fn'] = rng.choice([1, 2, 3, 4])
      break
    if o['k'] == 'dict' and len(o['items']) >= 2 and choice < 0.6:
      o['items'] = list(reversed(o['items']))
      break
    refs = [j for j, it in enumerate(o['items']) if it['val'] < 0]
    if refs and choice < 0.85:
      j = rng.choice(refs)
      c = rng.randint(i + 2, len(h)) if i + 2 <= len(h) else None   # later objects cannot reach i? (DFS order)
      if c and h[c - 1]['k'] != 'tagged':
        # keep it acyclic: only redirect to objects that do not reach i + 1
        def reach(a, seen=None):
          seen = seen if seen is not None else set()
          if a in seen:
            return seen
          seen.add(a)
          for it in h[a - 1]['items']:
            if it['val'] < 0:
              reach(-it['val'], seen)
          return seen
        if (i + 1) not in reach(c):
          o['items'][j]['val'] = -c
          break
    if refs:
      j = rng.choice(refs)
      t = -o['items'][j]['val']
      sub, _ = H.realize(h, t)
      cp = copy.deepcopy(sub)
      hp2, _ = H.project(cp)
      off = len(h)
      for oo in hp2:
        for it in oo['items']:
          if it['val'] < 0:
            it['val'] -= off
      h += hp2
      o['items'][j]['val'] = -(off + 1)
      break
  r, _ = H.realize(h, 1)
  return H.project(r)[0]


def record_chains(rng, n):
  recs = []
  for _ in range(n):
    hp = c02.random_heap(rng, rng.randint(2, 7), kinds=('config', 'config', 'list', 'dict', 'tuple'))
    if hp[0]['k'] != 'config':
      continue
    hy = random_rewrite(rng, hp) if rng.random() < 0.8 else hp
    hz = random_rewrite(rng, hy) if rng.random() < 0.6 else hy
    if any(H.has_shared_internable(h) for h in (hp, hy, hz)):
      continue      # (sharing of an internable tuple is outside Equiv's domain)
    x, _ = H.realize(hp)
    y = NoisyRealizer(hy).obj(1)
    z, _ = H.realize(hz)
    r = {'tid': len(recs) + 1, 'x': hp, 'y': hy, 'z': hz,
         'xy': safe(lambda: x == y), 'yz': safe(lambda: y == z), 'xz': safe(lambda: x == z)}
    recs.append(r)
  return recs


def validate_chains(v, recs, wd):
  os.makedirs(wd, exist_ok=True)
  path = os.path.join(wd, 'c06traces.json')
  def enc(b):
    return b if isinstance(b, str) else ('T' if b else 'F')
  with open(path, 'w') as f:
    json.dump([dict(r, xy=enc(r['xy']), yz=enc(r['yz']), xz=enc(r['xz'])) for r in recs], f)
  verdicts_ = {}
  def on_json(line):
    r = common.decode_line(line)
    verdicts_[r['tid']] = r
  res = common.run_tlc('Trace_C06', common.cfg_text({'AliasFix': True}, init='TInit', next_='TNext'),
                       workdir=os.path.join(wd, 'tr'), on_json=on_json, workers=1,
                       env={'TRACE_FILE': path})
  common.require_tlc_ok(res, 'Trace_C06')
  if len(verdicts_) != len(recs):
    raise common.MachineryError(f'Trace_C06 judged {len(verdicts_)} of {len(recs)} records')
  acc = 0
  for r in recs:
    vd = verdicts_[r['tid']]
    if vd['ok']:
      acc += 1
    else:
      v.mismatch({'clause': 'trace-rejected', 'failed': vd['failed']},
                 {'x': r['x'], 'y': r['y'], 'z': r['z'],
                  'message': f'observed xy={r["xy"]} yz={r["yz"]} xz={r["xz"]}: {vd["failed"]}'})
  return acc


def posonly_scenarios():
  """Unset vs explicit default for positional-only / positional parameters (no *args)."""
  out = []
  def h(a, b=7, /):
    return (a, b)
  def g(a, b=7, /, *rest):
    return (a, b, rest)
  def k(a, b=7):
    return (a, b)
  def h0(a=2, b=7, /):
    return (a, b)
  x0, y0, z0 = fdl.Config(h0), fdl.Config(h0, 2), fdl.Config(h0, 2, 7)
  r = safe(lambda: (x0 == y0, y0 == x0, x0 == z0, y0 == z0))
  if r != (True, True, True, True):
    out.append(({'clause': 'default-explicit-vs-unset', 'scenario': 'first-positional-default',
                 'observed': str(r)}, f'Config(h0) / Config(h0, 2) / Config(h0, 2, 7) compare {r}'))
  w0 = fdl.Config(h0, 2, 7)
  w0[0] = 2
  del w0[1]
  r = safe(lambda: (w0 == x0, w0 == z0))
  if r != (True, True):
    out.append(({'clause': 'default-explicit-vs-unset', 'scenario': 'first-positional-default-edits',
                 'observed': str(r)}, f'after cfg[0] = 2; del cfg[1]: {r}'))
  for name, fn in (('posonly-no-varargs', h), ('posonly-varargs', g), ('plain', k)):
    x, y = fdl.Config(fn, 1), fdl.Config(fn, 1, 7)
    r = safe(lambda: (x == y, y == x))
    if r != (True, True):
      out.append(({'clause': 'default-explicit-vs-unset', 'scenario': name, 'observed': str(r)},
                  f'Config({name}, 1) == Config({name}, 1, 7) gave {r}'))
    z = fdl.Config(fn, 1, 8)
    r = safe(lambda: x == z)
    if r is not False:
      out.append(({'clause': 'default-explicit-vs-unset', 'scenario': name + '-different', 'observed': str(r)},
                  f'value different from the default compared {r}'))
  return out


class _Base:
  def __init__(self, v=0):
    self.v = v

  @classmethod
  def make(cls, n=1):
    return (cls.__name__, n)

  def apply(self, n=1):
    return (self.v, n)


class _Derived(_Base):
  pass


def history_and_callable_scenarios(rng, n):
  """== ignores the order in which arguments were assigned (also **kwargs names aliasing a shared object),
  sees every argument of either side, and distinguishes callables that build different things."""
  import itertools  # pylint: disable=g-import-not-at-top
  out = []
  def kw(a=1, b=0, *, d=None, **rest):
    return (a, b, d, rest)
  names = ['a', 'b', 'd', 'p', 'q', 'r']
  for _ in range(n):
    shared = [rng.randint(1, 3)]
    binding = {}
    for nm in rng.sample(names, rng.randint(2, 5)):
      binding[nm] = rng.choice([shared, shared, [shared[0]], rng.randint(1, 3)])
    cfgs = []
    for _ in range(3):
      order = list(binding)
      rng.shuffle(order)
      c = fdl.Config(kw)
      if rng.random() < 0.5:
        setattr(c, order[-1], 99)     # history noise: overwritten below
      for nm in order:
        setattr(c, nm, binding[nm])
      cfgs.append((order, c))
    for (o1, c1), (o2, c2) in itertools.combinations(cfgs, 2):
      r = safe(lambda: (c1 == c2, c2 == c1))
      if r != (True, True):
        out.append(({'clause': 'assignment-order', 'observed': str(r),
                     'kwargs_names': any(x in ('p', 'q', 'r') for x in binding)},
                    f'same bindings {sorted(binding)} assigned as {o1} / {o2}: == gave {r}'))
        break
    # one side sets a parameter (to a non-default value) that the other leaves unset: never equal
    order, c = cfgs[0]
    for extra, val in (('b', 5), ('d', 6), ('r', 7)):
      if extra in binding:
        continue
      c2 = fdl.Config(kw)
      for nm in order:
        setattr(c2, nm, binding[nm])
      setattr(c2, extra, val)
      r = safe(lambda: (c == c2, c2 == c))
      if r != (False, False):
        out.append(({'clause': 'extra-argument-ignored', 'observed': str(r), 'extra': extra},
                    f'{sorted(binding)} vs the same plus {extra}={val}: == gave {r}'))
        break
  # an argument set on one side only (the other side sets different parameters, to their defaults or not)
  for xs, ys in (({'a': 1}, {'b': 5}), ({'a': 1, 'd': None}, {'b': 5}), ({'b': 0, 'd': None}, {'a': 2}),
                 ({'a': 1, 'b': 0, 'd': None}, {'r': 7}), ({'p': 3}, {'q': 3}), ({'a': 1, 'p': 3}, {'a': 1, 'q': 3})):
    x, y = fdl.Config(kw, **xs), fdl.Config(kw, **ys)
    r = safe(lambda: (x == y, y == x))
    if r != (False, False):
      out.append(({'clause': 'extra-argument-ignored', 'observed': str(r), 'extra': 'disjoint-sets'},
                  f'Config(kw, **{xs}) vs Config(kw, **{ys}): == gave {r}; they build {fdl.build(x)} / {fdl.build(y)}'))
  # callables: equal ones must compare equal, ones that build different things must not
  b1, b2 = _Base(2), _Base(3)
  pairs = [('same-classmethod', fdl.Config(_Base.make, 4), fdl.Config(_Base.make, 4), True),
           ('inherited-classmethod', fdl.Config(_Base.make, 4), fdl.Config(_Derived.make, 4), False),
           ('same-bound-method', fdl.Config(b1.apply, 5), fdl.Config(b1.apply, 5), True),
           ('method-of-two-instances', fdl.Config(b1.apply, 5), fdl.Config(b2.apply, 5), False),
           ('nested-config-vs-partial', fdl.Config(kw, a=fdl.Config(_Base, v=3)),
            fdl.Config(kw, a=fdl.Partial(_Base, v=3)), False),
           ('nested-config-vs-argfactory-in-partial', fdl.Partial(kw, a=fdl.Config(_Base, v=3)),
            fdl.Partial(kw, a=fdl.ArgFactory(_Base, v=3)), False)]
  for name, x, y, exp in pairs:
    r = safe(lambda: (x == y, y == x))
    if r != (exp, exp):
      out.append(({'clause': 'callable-or-type-distinction', 'scenario': name, 'observed': str(r)},
                  f'{name}: == gave {r}, expected {exp} (they build {safe(lambda: fdl.build(x))} / {safe(lambda: fdl.build(y))})'))
  return out


def main():
  v = common.Verdict(PROP, 'model_checking')
  quick = common.tier() == 'quick'
  base = dict(NLeaves=1, NFns=1, TagChoices={0}, UnsetTagged=False)
  neg = dict(base, MaxObjs=3, MaxItems=3, NKeys=1, NSlots=3, KindSet={'config'}, EmitOn=False,
             AliasFix=False)
  runs = [dict(base, MaxObjs=3, MaxItems=2, NKeys=3, NSlots=2, KindSet={'config', 'list', 'dict'},
               EmitOn=True, AliasFix=True),
          dict(base, MaxObjs=3, MaxItems=3, NKeys=1, NSlots=3, KindSet={'config'}, EmitOn=True,
               AliasFix=True, NLeaves=0 if quick else 1)]
  # dicts with three keys of mixed types holding shared objects; opaque mutable leaves
  runs.append(dict(base, MaxObjs=3, MaxItems=3, NKeys=3, NSlots=1, KindSet={'config', 'dict'},
                   EmitOn=True, AliasFix=True))
  runs.append(dict(base, MaxObjs=3, MaxItems=2, NKeys=1, NSlots=2, KindSet={'config', 'mleaf', 'list'},
                   EmitOn=True, AliasFix=True))
  if not quick:
    runs.append(dict(base, MaxObjs=3, MaxItems=2, NKeys=3, NSlots=2, TagChoices={0, 1},
                     KindSet={'config', 'partial', 'list', 'dict', 'tuple'}, EmitOn=True, AliasFix=True))
  invs = ['ImplMatchesSpec', 'Congruence', 'Symmetric', 'Labels', 'Emit']
  with common.scratch() as wd:
    rn = common.run_tlc('MC_C06', common.cfg_text(neg, constraints=['Prune'], invariants=['ImplMatchesSpec']),
                        workdir=os.path.join(wd, 'neg'))
    if rn.violation != 'ImplMatchesSpec':
      raise common.MachineryError('negative control failed: the comparison algorithm as found should '
                                  f'differ from Equiv; TLC said {rn.as_dict()}')
    totals = {'lines': 0, 'nontrivial': 0, 'equal': 0}
    res = None
    for n, c in enumerate(runs):
      disp = common.Dispatcher(work, chunk=400)
      r = common.run_tlc('MC_C06', common.cfg_text(c, constraints=['Prune'], invariants=invs),
                         workdir=os.path.join(wd, f'mc{n}'), on_json=disp)
      common.require_tlc_ok(r, 'MC_C06')
      for stats, mism, sample in disp.results():
        for k in totals:
          totals[k] += stats[k]
        for f, case in mism:
          v.mismatch(f, case)
        if sample:
          v.sample(sample)
      if res is None:
        res = r
      else:
        res.distinct += r.distinct
        res.generated += r.generated
        res.lines += r.lines
    rng = random.Random(common.seed() * 122949829 + 7)
    recs = record_chains(rng, 400 if quick else 4000)
    cand = next((r for r in recs if r['xy'] is True), None)
    if cand:
      vneg = common.Verdict(PROP, 'model_checking')
      vneg.kf.entries = []
      if validate_chains(vneg, [dict(cand, tid=1, xy=False)], os.path.join(wd, 'negtr')):
        raise common.MachineryError('Trace_C06 accepted a wrong verdict')
    accepted = validate_chains(v, recs, os.path.join(wd, 'c2s'))
    rng_s = random.Random(common.seed() * 40503 + 6)
    for f, msg in posonly_scenarios() + history_and_callable_scenarios(rng_s, 200 if quick else 2000):
      v.mismatch(f, {'message': msg})
  v.coverage.update({
      'states': res.distinct, 'transitions': res.generated,
      'traces_validated_against_impl': totals['lines'] + len(recs),
      'evaluations': totals['lines'] + len(recs), 'distinct_nontrivial': totals['nontrivial'],
      'rule': 'one case per TLC state in phase "pair" (x, one generic rewrite of a deep copy); non-trivial = '
              'a rewrite other than the plain copy; every second pair realises y through a different edit '
              'history. C->S: random chains x->y->z judged by Trace_C06 (Equiv + transitivity).',
      'pairs_expected_equal': totals['equal'], 'c2s_chains': len(recs), 'c2s_accepted': accepted,
      'negative_control': f'AliasFix=FALSE violates {rn.violation} (expected)',
      'model': res.as_dict(), 'exhaustive': True,
  })
  v.assumptions += ['leaves are NaN-free ints; dict key 3 is the int 3, other keys are strings (mixed key types)',
                    'tags do not take part in == (the statement does not list them)']
  return v.finish()


if __name__ == '__main__':
  common.main_wrapper(main)
