"""C19 — threads working on different configurations do not interfere.

MC  : spec/FdlThreads (via MC_C19): every interleaving of the labelled accesses to
      fiddle's module-level state for all program pairs (N = 2) and, thorough,
      triples (N = 3): ResultsAsIfAlone, SeqUniqueAndIncreasing, GuardPerThread.
      Negative control: the same model with global instead of thread-local
      flags must violate ResultsAsIfAlone.
C->S: real threads run under a deterministic scheduler (sys.settrace): at every
      `line` event inside fiddle/_src/* the running thread parks until the
      controller grants it a step, so a schedule is a sequence of thread ids.
      Schedules: every single preemption point (bound 1) at line granularity for
      every program pair, plus seeded random schedules (and bound 2 in the
      thorough tier).  Each executed schedule yields one record (results,
      sequence ids, flags observed per region) judged by spec/Trace_C19.
"""
from __future__ import annotations

import copy
import itertools
import json
import os
import random
import sys
import threading

import fiddle as fdl
from fiddle import daglish
from fiddle._src import building
from fiddle._src import history
from fiddle._src.experimental import serialization

from harness import common
from harness import heap as H

PROP = 'C19'
SRC = os.path.join(os.path.realpath(common.REPO), 'fiddle', '_src') + os.sep
PROGS = ('build', 'nested', 'fail', 'edit', 'sig', 'copy')
KEY_FILES = {'building.py', 'history.py', 'signatures.py', 'reraised_exception.py'}
# files whose lines are scheduling points: None = every file of fiddle/_src (thorough tier)
# (thorough: the key files plus the modules the programs spend their time in; every file of fiddle/_src
# multiplies the number of steps per schedule by ten and did not finish in half an hour)
# daglish.py (process-wide traverser registries; one of the property's anchors) is watched in both tiers: its
# lines are many, so preemption points there are stratified by source line (one per distinct executed line)
LINE_FILES = {'daglish.py'}
WATCH = KEY_FILES | LINE_FILES if common.tier() == 'quick' else KEY_FILES | {'config.py', 'daglish.py', 'partial.py', 'tagging.py'}


def _build_guard_holder():
  """The object holding fdl.build's re-entrancy flag (a private of building.py; found by shape, so that a
  harmless rename of the module-level variable does not break the observation)."""
  st = getattr(building, '_state', None)
  if st is not None and hasattr(st, 'in_build'):
    return st
  for v in vars(building).values():
    if isinstance(v, threading.local) and hasattr(v, 'in_build'):
      return v
  raise common.MachineryError('cannot find the build guard flag of fiddle._src.building')


_GUARD = _build_guard_holder()


def _in_build():
  return bool(_GUARD.in_build)


class CustomErr(Exception):
  pass


class Sched:
  """Runs programs in real threads, one line step at a time, as the policy dictates."""

  def __init__(self, progs, policy):
    self.progs = progs
    self.n = len(progs)
    self.policy = policy
    self.go = [threading.Semaphore(0) for _ in progs]
    self.ctrl = threading.Semaphore(0)
    self.done = [False] * self.n
    self.results = [None] * self.n
    self.seqs = [[] for _ in progs]
    self.region = ['outside'] * self.n
    self.obs = [dict() for _ in progs]       # region -> [guard mask, tracking mask]
    self.region_order = [[] for _ in progs]
    self.steps = 0
    self.shared = {}
    self.step_files = []          # file of the line each step stopped at (for choosing preemption points)
    self.step_threads = []        # which thread ran at each step
    self._where = ['?'] * self.n

  # ---- called from worker threads
  def _observe(self, i):
    g = 2 if _in_build() else 1            # thread-local reads of *this* thread
    t = 2 if history.tracking_enabled() else 1
    r = self.region[i]
    if r not in self.obs[i]:
      self.obs[i][r] = [0, 0]
      self.region_order[i].append(r)
    self.obs[i][r][0] |= g
    self.obs[i][r][1] |= t

  def pause(self, i):
    self._observe(i)
    self.ctrl.release()
    self.go[i].acquire()

  def mark(self, i, region):
    self.region[i] = region

  def _tracer(self, i):
    def local(frame, event, arg):
      if event == 'line':
        self._where[i] = f'{os.path.basename(frame.f_code.co_filename)}:{frame.f_lineno}'
        self.pause(i)
      return local
    def glob(frame, event, arg):
      fn = frame.f_code.co_filename
      if event == 'call' and fn.startswith(SRC) and (WATCH is None or os.path.basename(fn) in WATCH):
        return local
      return None
    return glob

  def _worker(self, i):
    self.go[i].acquire()
    sys.settrace(self._tracer(i))
    try:
      self.results[i] = self.progs[i](self, i)
    except BaseException as e:  # pylint: disable=broad-except
      self.results[i] = 'crashed:' + type(e).__name__ + ':' + str(e)[:80]
    finally:
      sys.settrace(None)
      self.done[i] = True
      self.ctrl.release()

  # ---- controller
  def run(self):
    ths = [threading.Thread(target=self._worker, args=(i,), daemon=True) for i in range(self.n)]
    for t in ths:
      t.start()
    cur = None
    while not all(self.done):
      runnable = [i for i in range(self.n) if not self.done[i]]
      cur = self.policy(self.steps, cur, runnable)
      self.steps += 1
      self.step_files.append(self._where[cur])
      self.step_threads.append(cur)
      self.go[cur].release()
      if not self.ctrl.acquire(timeout=60):
        raise common.MachineryError('scheduler: a thread did not yield within 60 s')
      if self.steps > 200000:
        raise common.MachineryError('scheduler: too many steps')
    for t in ths:
      t.join(5)
    return self


# ------------------------------- programs ---------------------------------

def all_seqs(*roots):
  """Sequence ids of every history entry of every Buildable reachable from the roots."""
  out = []
  seen = set()
  for r in roots:
    for v, _ in daglish.iterate(r):
      if isinstance(v, fdl.Buildable) and id(v) not in seen:
        seen.add(id(v))
        out += [e.sequence_id for l in v.__argument_history__.values() for e in l]
  return sorted(out)


def _slow(s1=0, s2=0, s3=0):
  return ('slow', s1, s2, s3)


def p_build(s, i):
  def callable_(s1=0, s2=0):
    s.mark(i, 'own-callable')
    for _ in range(3):
      s.pause(i)                       # "a slow callable": explicit scheduling points
    s.mark(i, 'in-build')
    return ('made', s1, s2)
  cfg = fdl.Config(callable_, s1=fdl.Config(_slow, s1=i), s2=[1, 2])
  s.mark(i, 'in-build')
  r = fdl.build(cfg)
  s.mark(i, 'outside')
  s.seqs[i] = all_seqs(cfg)
  return 'built' if r == ('made', ('slow', i, 0, 0), [1, 2]) else f'wrong-result:{r}'


def p_nested(s, i):
  box = {}
  def callable_(s1=0):
    s.mark(i, 'own-callable')
    s.pause(i)
    try:
      fdl.build(fdl.Config(_slow, s1=1))
      box['r'] = 'nested-accepted'
    except ValueError:
      box['r'] = 'nested-rejected'
    s.pause(i)
    s.mark(i, 'in-build')
    return 1
  s.mark(i, 'in-build')
  fdl.build(fdl.Config(callable_, s1=fdl.Config(_slow)))
  s.mark(i, 'outside')
  return box.get('r', 'callable-not-run')


def p_fail(s, i):
  def callable_(s1=0):
    s.mark(i, 'own-callable')
    s.pause(i)
    s.mark(i, 'in-build')
    raise CustomErr(f'boom-{i}')
  cfg = fdl.Config(_slow, s1=[fdl.Config(callable_, s1=1)])
  s.mark(i, 'in-build')
  try:
    fdl.build(cfg)
    out = 'not-raised'
  except CustomErr as e:
    ok = str(e).startswith(f'boom-{i}') and '<root>.s1[0]' in str(e)
    out = 'raised-proxy' if ok else f'bad-message:{str(e)[:60]}'
  except Exception as e:  # pylint: disable=broad-except
    out = 'wrong-class:' + type(e).__name__
  # the next build in this thread works normally
  if fdl.build(fdl.Config(_slow, s1=7)) != ('slow', 7, 0, 0):
    out = 'next-build-broken'
  s.mark(i, 'outside')
  return out


def p_edit(s, i):
  cfg = fdl.Config(_slow)
  cfg.s1 = 1
  s.mark(i, 'transition')            # entering / leaving the context manager: flag in flux
  with history.suspend_tracking():
    s.mark(i, 'own-suspend')         # from here on tracking must be off for this thread
    cfg.s2 = 2
    with history.suspend_tracking():
      cfg.s3 = 3
    cfg.s2 = 4                       # still suspended after the inner block
    s.mark(i, 'transition')
  s.mark(i, 'outside')
  cfg.s3 = 5
  ents = sorted((e for l in cfg.__argument_history__.values() for e in l),
                key=lambda e: e.sequence_id)
  # program order: callable, s1, s3
  names = [e.param_name for e in ents]
  s.seqs[i] = [e.sequence_id for e in ents]
  return 'edited' if names == ['__fn_or_cls__', 's1', 's3'] else f'entries:{names}'


def p_sig(s, i):
  fn = s.shared['fn']
  cfg = fdl.Config(fn, 1, k=2)
  s.seqs[i] = all_seqs(cfg)
  ok = list(cfg.__signature_info__.parameters) == ['a', 'b', 'k'] and cfg.a == 1 and cfg.k == 2
  s.mark(i, 'in-build')
  ok = ok and fdl.build(cfg) == (1, 5, 2)
  s.mark(i, 'outside')
  # callables that cannot be keys of the weak signature cache (eq-dataclass instances with
  # __call__), a different signature per thread, created and dropped again and again
  import dataclasses as _dc
  if i % 2 == 0:
    @_dc.dataclass
    class Scale:
      factor: float = 2.0
      def __call__(self, x, y=1):
        return ('scale', x, y)
    kw = {'x': 3, 'y': 4}
    want = ('scale', 3, 4)
  else:
    @_dc.dataclass
    class Scale:
      offset: float = 1.0
      def __call__(self, z, w=1):
        return ('shift', z, w)
    kw = {'z': 3, 'w': 4}
    want = ('shift', 3, 4)
  s.mark(i, 'in-build')
  for _ in range(5):
    inst = Scale()
    try:
      if fdl.build(fdl.Config(inst, **kw)) != want:
        ok = False
    except Exception:  # pylint: disable=broad-except
      ok = False
    del inst
  s.mark(i, 'outside')
  return 'sig-ok' if ok else f'sig-wrong:{cfg}'


def p_copy(s, i):
  shared = fdl.Config(_slow, s1=i)
  cfg = fdl.Config(_slow, s1=shared, s2=[shared, {'k': (1, 2)}], s3=i)
  s.seqs[i] = all_seqs(cfg)
  c2 = copy.deepcopy(cfg)
  js = serialization.dump_json(cfg)
  back = serialization.load_json(js)
  ok = c2 == cfg and back == cfg and c2.s1 is c2.s2[0] and back.s1 is back.s2[0]
  return 'copied' if ok else 'copy-differs'


PROGRAM = {'build': p_build, 'nested': p_nested, 'fail': p_fail, 'edit': p_edit, 'sig': p_sig,
           'copy': p_copy}


def fresh_shared():
  def shared_fn(a, b=5, *, k=0):
    return (a, b, k)
  return {'fn': shared_fn}       # a brand-new callable: its signature is not cached yet


def run_schedule(names, policy):
  s = Sched([PROGRAM[n] for n in names], policy)
  s.shared = fresh_shared()
  s.run()
  threads = []
  for i, n in enumerate(names):
    threads.append({'prog': n, 'result': str(s.results[i]), 'seqs': s.seqs[i],
                    'regions': [{'name': r, 'guard': s.obs[i][r][0], 'tracking': s.obs[i][r][1]}
                                for r in s.region_order[i]]})
  return {'threads': threads, 'steps': s.steps, 'step_files': s.step_files, 'step_threads': s.step_threads}


def sequential(step, cur, runnable):
  return cur if cur in runnable else runnable[0]


def preempt_at(points):
  """points: {step index: thread to switch to}; otherwise continue / lowest runnable."""
  def policy(step, cur, runnable):
    if step in points and points[step] in runnable:
      return points[step]
    return cur if cur in runnable else runnable[0]
  return policy


def random_policy(rng, pswitch):
  def policy(step, cur, runnable):
    if cur in runnable and rng.random() > pswitch:
      return cur
    return rng.choice(runnable)
  return policy


def worker_batch(job):
  """Runs a batch of schedules in this process; returns records."""
  common.quiet_logging()
  out = []
  for names, kind, arg in job:
    if kind == 'preempt':
      pol = preempt_at(dict(arg))
    elif kind == 'random':
      pol = random_policy(random.Random(arg), 0.15)
    else:
      pol = sequential
    rec = run_schedule(list(names), pol)
    rec['names'] = list(names)
    rec['schedule'] = [kind, arg]
    out.append(rec)
  return out


def validate(v, recs, wd, tag='all'):
  os.makedirs(wd, exist_ok=True)
  for n, r in enumerate(recs):
    r['tid'] = n + 1
  path = os.path.join(wd, f'c19-{tag}.json')
  with open(path, 'w') as f:
    json.dump([{'tid': r['tid'], 'threads': r['threads']} for r in recs], f)
  verdicts = {}
  def on_json(line):
    r = common.decode_line(line)
    verdicts[r['tid']] = r
  res = common.run_tlc('Trace_C19', common.cfg_text({}, init='TInit', next_='TNext'),
                       workdir=os.path.join(wd, 'tr-' + tag), on_json=on_json, workers=1,
                       env={'TRACE_FILE': path})
  common.require_tlc_ok(res, 'Trace_C19')
  if len(verdicts) != len(recs):
    raise common.MachineryError(f'Trace_C19 judged {len(verdicts)} of {len(recs)} records')
  acc = 0
  for r in recs:
    vd = verdicts[r['tid']]
    if vd['ok']:
      acc += 1
    else:
      v.mismatch({'clause': vd['failed'], 'programs': '+'.join(r['names'])},
                 {'schedule': r['schedule'], 'programs': r['names'],
                  'message': json.dumps(r['threads'])[:900]})
  return acc


def main():
  import multiprocessing as mp
  v = common.Verdict(PROP, 'model_checking')
  quick = common.tier() == 'quick'
  with common.scratch() as wd:
    # ---- model checking: all pairs (and triples), plus the negative control
    states = trans = 0
    npairs = 0
    for n in ((2,) if quick else (2, 3)):
      cfg = common.cfg_text(dict(N=n, GlobalFlags=False), spec='Spec',
                            invariants=['ResultsAsIfAlone', 'SeqUniqueAndIncreasing', 'GuardPerThread'])
      cfg = cfg.replace('CONSTANTS\n', 'CONSTANTS\n  ProgNames <- AllProgs\n')
      r = common.run_tlc('MC_C19', cfg, workdir=os.path.join(wd, f'mc{n}'))
      common.require_tlc_ok(r, f'MC_C19 N={n}')
      states += r.distinct
      trans += r.generated
      npairs += 6 ** n
    ncfg = common.cfg_text(dict(N=2, GlobalFlags=True), spec='Spec', invariants=['ResultsAsIfAlone'])
    ncfg = ncfg.replace('CONSTANTS\n', 'CONSTANTS\n  ProgNames <- AllProgs\n')
    neg = common.run_tlc('MC_C19', ncfg, workdir=os.path.join(wd, 'neg'), workers=2)
    if neg.violation != 'ResultsAsIfAlone':
      raise common.MachineryError('negative control failed: global flags should violate ResultsAsIfAlone')

    # ---- real threads under the deterministic scheduler
    # 1. sequential run of every pair gives the number of steps per pair
    pairs = list(itertools.product(PROGS, PROGS))
    base = worker_batch([(p, 'seq', 0) for p in pairs])
    jobs = []
    rng = random.Random(common.seed() * 198491317 + 11)
    for rec in base:
      steps = rec['steps']
      # every line of the files that hold module-level state is a preemption point; the other
      # lines are sampled in the quick tier
      key = KEY_FILES
      files = rec.get('step_files', [])
      fname = lambda s_: str(files[s_]).split(':')[0]
      keypts = [s_ for s_ in range(1, steps) if s_ < len(files) and fname(s_) in key]
      # one preemption point per distinct executed source line of the line-stratified files
      seen_lines, linepts = set(), []
      for s_ in range(1, min(steps, len(files))):
        if fname(s_) in LINE_FILES and files[s_] not in seen_lines:
          seen_lines.add(files[s_])
          linepts.append(s_)
      taken = set(keypts) | set(linepts)
      other = [s_ for s_ in range(1, steps) if s_ not in taken]
      if len(other) > (6 if quick else 20):
        other = rng.sample(other, 6 if quick else 20)
      if len(keypts) > (40 if quick else 120):
        keypts = rng.sample(keypts, 40 if quick else 120)
      pts = sorted(set(keypts) | set(other) | set(linepts))
      for s_ in pts:
        jobs.append((tuple(rec['names']), 'preempt', [[s_, 1]]))
        if not quick:
          jobs.append((tuple(rec['names']), 'preempt', [[s_, 1], [rng.randrange(s_ + 1, steps + 40), 0]]))
      for k in range(2 if quick else 8):
        jobs.append((tuple(rec['names']), 'random', rng.randrange(1 << 30)))
      # two preemptions (thread 0 stops inside a section, thread 1 runs into its own section, thread 0
      # resumes): needed for state that is saved and restored around a section.  Exhaustive over the lines
      # of the file holding the flag for pairs of programs that use the same flag, sampled otherwise.
      a, b = rec['names']
      group = {'edit': 'history.py', 'build': 'building.py', 'nested': 'building.py', 'fail': 'building.py'}
      if a in group and group.get(b) == group[a]:
        th = rec.get('step_threads', [])
        n0 = sum(1 for t in th if t == 0)
        f = group[a]
        k0 = [s_ for s_ in range(1, n0) if s_ < len(files) and files[s_] == f]
        k1 = [s_ - n0 for s_ in range(n0, steps) if s_ < len(files) and files[s_] == f]
        combos = [(x, y) for x in k0 for y in k1 if y > 0]
        cap = 1200 if (a, b) == ('edit', 'edit') else (80 if quick else 400)
        if len(combos) > cap:
          combos = rng.sample(combos, cap)
        for x, y in combos:
          jobs.append((tuple(rec['names']), 'preempt', [[x, 1], [x + y, 0]]))
    triples = [tuple(rng.choice(PROGS) for _ in range(3)) for _ in range(12 if quick else 80)]
    for t in triples:
      for k in range(2):
        jobs.append((t, 'random', rng.randrange(1 << 30)))
    chunk = max(1, len(jobs) // (common.NCPU * 4))
    batches = [jobs[k:k + chunk] for k in range(0, len(jobs), chunk)]
    with mp.Pool(common.NCPU) as pool_:
      recs = list(base)
      for out in pool_.imap_unordered(worker_batch, batches):
        recs += out
    # binding demo: a record in which a thread saw the guard outside its own build is rejected
    bad = json.loads(json.dumps(recs[0]))
    bad['threads'][0]['regions'].append({'name': 'outside', 'guard': 2, 'tracking': 2})
    vneg = common.Verdict(PROP, 'model_checking')
    vneg.kf.entries = []
    if validate(vneg, [bad], os.path.join(wd, 'negtr'), 'neg'):
      raise common.MachineryError('Trace_C19 accepted a foreign guard observation')
    accepted = validate(v, recs, os.path.join(wd, 'c2s'))
  interesting = sum(1 for r in recs if r['schedule'][0] != 'seq')
  v.coverage.update({
      'states': states, 'transitions': trans,
      'traces_validated_against_impl': len(recs), 'evaluations': len(recs),
      'distinct_nontrivial': interesting,
      'rule': 'one case = one executed schedule of 2-3 real threads (programs: build with a slow callable, nested '
              'build, failing callable, edits around nested suspend_tracking, first signature lookup of a shared '
              'fresh callable, deepcopy/==/dump_json/load_json); distinct by (program tuple, preemption points or '
              'seed); non-trivial = not the purely sequential schedule',
      'model_instances': npairs, 'negative_control': 'GlobalFlags=TRUE violates ResultsAsIfAlone (expected)',
      'schedules': len(recs), 'accepted': accepted,
      'steps_per_pair_sequential': {'+'.join(r['names']): r['steps'] for r in base[:8]},
      'exhaustive': False,
  })
  v.sample({'programs': recs[-1]['names'], 'schedule': recs[-1]['schedule'],
            'threads': recs[-1]['threads']})
  v.assumptions += [
      'preemption happens at source-line granularity (sys.settrace line events; quick tier: the four files holding module-level state -- building, history, signatures, reraised_exception; thorough tier: those plus config, daglish, partial, tagging) and at the '
      'explicit pauses of the slow callables; bytecode-granular preemption inside one line (e.g. '
      'next(_set_counter), dict operations: atomic under the GIL) is assumed',
      'single preemption points per program pair are sampled (quick: at most 46, thorough: at most 140)',
  ]
  return v.finish()


if __name__ == '__main__':
  common.main_wrapper(main)
