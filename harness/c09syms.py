"""Symbols that test documents refer to; every resolution is logged (PEP 562)."""
ACCESS_LOG = []


def _a(*args, **kwargs):
  CALLS.append('sym_a')


def _b(*args, **kwargs):
  CALLS.append('sym_b')


def _c(*args, **kwargs):
  CALLS.append('sym_c')


CALLS = []
_REAL = {'sym_a': _a, 'sym_b': _b, 'sym_c': _c}
for _n, _f in _REAL.items():
  _f.__qualname__ = _n
  _f.__name__ = _n


def __getattr__(name):
  ACCESS_LOG.append(name)
  if name in _REAL:
    return _REAL[name]
  raise AttributeError(name)
