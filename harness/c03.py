"""C03 — attribute, index and slice edits behave like edits to a bound-argument list.

MC  : TLC explores spec/MC_C03 (level A, FdlStore) with model laws asserted on
      every transition.
S->C: every generated transition is replayed on the real Buildable.
C->S: random edit histories on larger signatures are recorded from the real
      library and validated by TLC against the same Apply operator (Trace_C03).
"""
from __future__ import annotations

import json
import multiprocessing as mp
import os
import random
import sys

from harness import common
from harness import pool
from harness import store

PROP = 'C03'
FORMS = ('function', 'class')


# ----------------------------------------------------------------------------
# S->C : replay one emitted transition
# ----------------------------------------------------------------------------

def pylist_selftest(rec):
  """For the signature f(*p1) the store *is* a Python list: check the spec."""
  before = list(rec['pre'][-1]['S']['va'])
  op = rec['op']
  name = op['name']
  if name not in ('getslice', 'setslice', 'delslice', 'getitem', 'setitem', 'delitem'):
    return None
  if store.VA in (op['a'], op['b']):
    return None
  l = list(before)
  try:
    if name.endswith('slice'):
      sl = slice(store.cv(op['a']), store.cv(op['b']), store.cv(op['c']))
      if name == 'getslice':
        ret = l[sl]
        ok = rec['out'] == 'ok' and rec['ret'] == ret
      elif name == 'setslice':
        l[sl] = op['vals']
        ok = rec['out'] == 'ok' and rec['post']['va'] == l
      else:
        del l[sl]
        ok = rec['out'] == 'ok' and rec['post']['va'] == l
    else:
      i = op['a']
      if name == 'getitem':
        ret = [l[i]]
        ok = rec['out'] == 'ok' and rec['ret'] == ret
      elif name == 'setitem':
        l[i] = op['vals'][0]
        ok = rec['out'] == 'ok' and rec['post']['va'] == l
      else:
        del l[i]
        ok = rec['out'] == 'ok' and rec['post']['va'] == l
  except (IndexError, ValueError):
    ok = rec['out'] == 'raise'
  return ok


def replay_line(rec, form):
  """Returns (status, mismatches) for one transition; status in ok|dead."""
  sig = rec['sig']
  fn = pool.get_fn(sig, form)
  mism = []
  steps = rec['pre']
  try:
    cfg = store.construct(fn, sig, steps[0]['op'])
  except Exception as e:  # pylint: disable=broad-except
    return 'dead', [(store.features(sig, steps[0]['S'], steps[0]['op'], 'ok', 'raise',
                                    type(e).__name__, 'outcome', True),
                     'constructor raised')]
  if not store.state_eq(store.project(cfg, sig), steps[0]['S']):
    # the constructor itself is judged by C01; here the case is just dead
    return 'dead', []
  for st in steps[1:]:
    out, _, _ = store.do_op(cfg, sig, st['op'])
    okout = (st['out'] == 'either') or (out == st['out'])
    if not okout or not store.state_eq(store.project(cfg, sig), st['S']):
      return 'dead', []     # reported by the line whose final op is this step
  before = steps[-1]['S']
  op = rec['op']
  out, exc, ret = store.do_op(cfg, sig, op)
  after = store.project(cfg, sig)
  unchanged = store.state_eq(after, before)
  exp = rec['out']
  def feat(clause):
    return store.features(sig, before, op, exp, out, exc, clause, unchanged)
  if exp != 'either' and out != exp:
    mism.append((feat('outcome'), f'expected {exp}, observed {out} {exc}'))
  elif exp == 'ok' and ret != rec['ret'] and op['name'] in (
      'getitem', 'getslice', 'getattr', 'oargs', 'dir'):
    mism.append((feat('ret'), f'expected ret {rec["ret"]}, observed {ret}'))
  expected_state = rec['post'] if (out == 'ok' and exp != 'raise') else before
  if out == 'raise' and not unchanged:
    mism.append((feat('raise-unchanged'),
                 f'raised {exc} but state changed: {before} -> {after}'))
  elif out == 'ok' and exp in ('ok', 'either') and not store.state_eq(after, rec['post']):
    mism.append((feat('state'), f'expected {rec["post"]}, observed {after}'))
  elif not mism and store.state_eq(after, expected_state):
    # cross-check the public reports on the post-state
    try:
      view = [pool.proj_val(v) for v in cfg[:]]
      exp_view = rec['view'] if out == 'ok' else None
      if exp_view is not None and view != exp_view:
        mism.append((feat('view'), f'cfg[:] = {view}, expected {exp_view}'))
      if out == 'ok':
        oa = store.flat_oargs(cfg, 9, sig)
        if oa != rec['oa']:
          mism.append((feat('oargs'), f'ordered_arguments = {oa}, expected {rec["oa"]}'))
    except Exception as e:  # pylint: disable=broad-except
      mism.append((feat('view-raises'), f'{type(e).__name__}: {e}'))
  return 'ok', mism


def work(lines):
  """Worker: replay a chunk of raw TLC lines."""
  stats = {'lines': 0, 'dead': 0, 'replayed': 0, 'nontrivial': 0,
           'selftest': 0, 'selftest_fail': []}
  mismatches = []
  sample = None
  for line in lines:
    rec = common.decode_line(line)
    stats['lines'] += 1
    if store.sig_is_pure_list(rec['sig']):
      ok = pylist_selftest(rec)
      if ok is not None:
        stats['selftest'] += 1
        if not ok and len(stats['selftest_fail']) < 3:
          stats['selftest_fail'].append(rec)
    for form in FORMS:
      status, mism = replay_line(rec, form)
      if status == 'dead':
        stats['dead'] += 1
      else:
        stats['replayed'] += 1
      for f, msg in mism:
        f = dict(f, form=form)
        mismatches.append((f, {'sig': pool.sig_key(rec['sig']),
                               'program': [s['op'] for s in rec['pre']] + [rec['op']],
                               'message': msg}))
    if rec['out'] == 'ok' and (rec['post'] != rec['pre'][-1]['S'] or rec['ret']):
      stats['nontrivial'] += 1
    if sample is None and rec['op']['name'] == 'setslice' and rec['out'] == 'ok':
      sample = {'sig': pool.sig_key(rec['sig']),
                'program': [s['op'] for s in rec['pre']] + [rec['op']],
                'expected_out': rec['out'], 'expected_post': rec['post']}
  return stats, mismatches, sample


MC_CONFIGS = {
    'quick': [
        dict(name='names', MaxParams=3, MaxVa=2, MaxOps=2, SigMode=0, KwMode=0,
             Groups={'item', 'attr', 'report'}, SliceMode=3),
        dict(name='slices', MaxParams=2, MaxVa=2, MaxOps=1, SigMode=1, KwMode=0,
             Groups={'slice'}, SliceMode=3),
    ],
    'thorough': [
        dict(name='names', MaxParams=4, MaxVa=2, MaxOps=2, SigMode=0, KwMode=1,
             Groups={'item', 'attr', 'report'}, SliceMode=3),
        dict(name='slices', MaxParams=3, MaxVa=3, MaxOps=1, SigMode=1, KwMode=0,
             Groups={'slice'}, SliceMode=1),
        dict(name='slices2', MaxParams=2, MaxVa=2, MaxOps=2, SigMode=1, KwMode=0,
             Groups={'slice', 'item'}, SliceMode=3),
    ],
}


def run_mc(v: common.Verdict, workdir):
  totals = {'states': 0, 'transitions': 0, 'replayed': 0, 'dead': 0,
            'nontrivial': 0, 'lines': 0, 'selftest': 0}
  for c in MC_CONFIGS[common.tier()]:
    consts = {k: val for k, val in c.items() if k != 'name'}
    consts['EmitOn'] = True
    cfg = common.cfg_text(consts, view='AbsView', constraints=['Bound'],
                          invariants=['TypeOK'])
    disp = common.Dispatcher(work)
    res = common.run_tlc('MC_C03', cfg, workdir=os.path.join(workdir, c['name']),
                         on_json=disp)
    common.require_tlc_ok(res, f'MC_C03/{c["name"]}')
    for stats, mism, sample in disp.results():
      for k in ('replayed', 'dead', 'nontrivial', 'lines', 'selftest'):
        totals[k] += stats[k]
      if stats['selftest_fail']:
        raise common.MachineryError(
            'spec list semantics disagree with CPython: '
            + json.dumps(stats['selftest_fail'][0]))
      for f, case in mism:
        v.mismatch(f, case)
      if sample:
        v.sample(sample)
    totals['states'] += res.distinct
    totals['transitions'] += res.generated
    v.notes.append(f'MC_C03/{c["name"]}: {res.as_dict()}')
  return totals


# ----------------------------------------------------------------------------
# C->S : random histories on the real library, validated by TLC
# ----------------------------------------------------------------------------

KINDS_ORDER = ['PO', 'PK', 'VP', 'KO', 'VK']


def random_sig(rng, maxn):
  n_po = rng.randint(0, 3)
  n_pk = rng.randint(0, 3)
  n_ko = rng.randint(0, 2)
  while n_po + n_pk + n_ko > maxn:
    if n_po:
      n_po -= 1
    elif n_pk:
      n_pk -= 1
    else:
      n_ko -= 1
  sig = []
  first_d = rng.randint(0, n_po + n_pk)
  for i in range(n_po + n_pk):
    sig.append({'k': 'PO' if i < n_po else 'PK', 'd': i >= first_d})
  if rng.random() < 0.6:
    sig.append({'k': 'VP', 'd': False})
  for _ in range(n_ko):
    sig.append({'k': 'KO', 'd': rng.random() < 0.5})
  if rng.random() < 0.4:
    sig.append({'k': 'VK', 'd': False})
  return sig


def random_op(rng, sig, S):
  ln = len(S['pre']) + len(S['va'])
  hasvp = store.has(sig, 'VP')
  def idx():
    c = list(range(-ln - 2, ln + 2))
    if hasvp:
      c += [store.VA] * 2
    return rng.choice(c)
  def slf():
    c = list(range(-ln - 1, ln + 2)) + [store.NONE] * 3
    if hasvp:
      c += [store.VA] * 3
    return rng.choice(c)
  def names():
    c = [i + 1 for i, p in enumerate(sig) if p['k'] != 'VK'] + [101, 102]
    return rng.choice(c)
  kind = rng.choice(['getitem', 'setitem', 'setitem', 'delitem', 'getslice',
                     'setslice', 'setslice', 'delslice', 'getattr', 'setattr',
                     'setattr', 'delattr', 'oargs', 'dir'])
  z = {'name': kind, 'a': 0, 'b': 0, 'c': 0, 'vals': []}
  if kind in ('getitem', 'delitem'):
    z['a'] = idx()
  elif kind == 'setitem':
    z['a'] = idx()
    z['vals'] = [rng.randint(1, 9)]
  elif kind in ('getslice', 'delslice', 'setslice'):
    z['a'], z['b'] = slf(), slf()
    z['c'] = rng.choice([store.NONE, store.NONE, 1, 2, 3, -1, -1, -2, -3, 0])
    if kind == 'setslice':
      z['vals'] = [rng.randint(1, 9) for _ in range(rng.choice([0, 1, 1, 2, 2, 3, 4]))]
  elif kind in ('getattr', 'delattr'):
    z['a'] = names()
  elif kind == 'setattr':
    z['a'] = names()
    z['vals'] = [rng.randint(1, 9)]
  elif kind == 'oargs':
    z['a'] = rng.choice([9, 11, 13, 15, 1, 8, 0, 3])
  return z


def record_traces(rng, n_traces, max_len, maxparams):
  """Runs random histories on the real library; returns trace dicts."""
  traces = []
  for tid in range(1, n_traces + 1):
    sig = random_sig(rng, maxparams)
    form = rng.choice(FORMS)
    fn = pool.get_fn(sig, form)
    cfg = __import__('fiddle').Config(fn)
    init = store.project(cfg, sig)
    events = []
    cur = init
    for _ in range(rng.randint(1, max_len)):
      op = random_op(rng, sig, cur)
      out, exc, ret = store.do_op(cfg, sig, op)
      post = store.project(cfg, sig)
      stray = post.pop('stray', None)
      events.append({'op': op, 'out': out, 'exc': exc or '', 'ret': ret,
                     'post': post, 'stray': 1 if stray else 0})
      cur = post
      if stray:
        break   # not an abstract state any more; the event itself is rejected
    traces.append({'tid': tid, 'sig': sig, 'form': form, 'init': init,
                   'events': events})
  return traces


def validate_traces(v, traces, workdir):
  """Batch trace validation with spec/Trace_C03.tla."""
  path = os.path.join(workdir, 'traces.json')
  with open(path, 'w') as f:
    json.dump(traces, f)
  verdicts = {}
  def on_json(line):
    r = common.decode_line(line)
    verdicts[r['tid']] = r
  cfg = common.cfg_text({}, init='TInit', next_='TNext',
                        constraints=['TProgress'], postcondition='TReport')
  res = common.run_tlc('Trace_C03', cfg, workdir=os.path.join(workdir, 'trace'),
                       on_json=on_json, workers=1, env={'TRACE_FILE': path})
  common.require_tlc_ok(res, 'Trace_C03')
  if len(verdicts) != len(traces):
    raise common.MachineryError(
        f'trace validation reported {len(verdicts)} of {len(traces)} traces')
  accepted = 0
  events = 0
  for t in traces:
    r = verdicts[t['tid']]
    events += r['matched']
    if r['matched'] == len(t['events']):
      accepted += 1
      continue
    ev = t['events'][r['matched']]
    before = t['events'][r['matched'] - 1]['post'] if r['matched'] else t['init']
    unchanged = store.state_eq(ev['post'], before) and not ev['stray']
    # the expected outcome is recomputed by a single-event TLC query below; for
    # the fingerprint we only need what was observed and where.
    f = store.features(t['sig'], before, ev['op'], r.get('expected', '?'),
                       ev['out'], ev['exc'], 'trace-rejected', unchanged)
    f['form'] = t['form']
    v.mismatch(f, {'sig': pool.sig_key(t['sig']),
                   'program': [e['op'] for e in t['events'][:r['matched'] + 1]],
                   'message': f'event {r["matched"] + 1} is not a step of FdlStore: '
                              f'observed {ev["out"]} {ev["exc"]} post={ev["post"]}'
                              f'{" +stray keys" if ev["stray"] else ""}; '
                              f'spec expects {r.get("expected")} {r.get("expected_post")}'})
  return accepted, events, res


def run_traces(v, workdir):
  rng = random.Random(common.seed() * 7919 + 17)
  n, ln, mp_ = (400, 12, 6) if common.tier() == 'quick' else (4000, 30, 8)
  traces = record_traces(rng, n, ln, mp_)
  accepted, events, res = validate_traces(v, traces, workdir)
  v.sample({'trace': {'sig': pool.sig_key(traces[0]['sig']),
                      'events': [(e['op'], e['out']) for e in traces[0]['events'][:4]]}})
  return len(traces), accepted, events


def run_repo_tests(v, workdir):
  """C->S on the repository's own tests: every edit they make on a plain Buildable (recorded by the pytest
  plugin harness/trace_plugin.py, no change to the repository) must be a step of FdlStore."""
  import glob
  import subprocess
  import sys
  tdir = os.path.join(workdir, 'repo-traces')
  os.makedirs(tdir, exist_ok=True)
  quick = common.tier() == 'quick'
  files = (['fiddle/_src/config_test.py', 'fiddle/_src/signatures_test.py', 'fiddle/_src/partial_test.py',
            'fiddle/_src/mutate_buildable_test.py', 'fiddle/_src/materialize_test.py'] if quick else [])
  files = [f for f in files if os.path.exists(os.path.join(common.REPO, f))]
  env = dict(os.environ, FIDDLE_VERIF_TRACE_DIR=tdir, PYTHONPATH=f'{common.VERIF}:{common.REPO}')
  cmd = [sys.executable, '-m', 'pytest', '-q', '-p', 'no:cacheprovider', '-p', 'harness.trace_plugin',
         '-n', '8', '--timeout=900'] + files
  r = subprocess.run(cmd, cwd=common.REPO, env=env, capture_output=True, text=True, timeout=3000)
  traces = []
  for f in sorted(glob.glob(os.path.join(tdir, 'traces-*.json'))):
    with open(f) as fh:
      traces += json.load(fh)
  if not traces:
    raise common.MachineryError('the trace plugin recorded nothing from the repository tests: ' + r.stdout[-300:])
  traces.sort(key=lambda t: json.dumps(t, sort_keys=True))
  for n, t in enumerate(traces):
    t['tid'] = n + 1
  os.makedirs(os.path.join(workdir, 'repo-validate'), exist_ok=True)
  accepted, events, _ = validate_traces(v, traces, os.path.join(workdir, 'repo-validate'))
  return len(traces), accepted, events


def sensitivity_selfcheck(workdir):
  """Binding demo: a corrupted trace must be rejected by Trace_C03."""
  sig = [{'k': 'PK', 'd': False}, {'k': 'VP', 'd': False}]
  S0 = {'pre': [0], 'va': [], 'ko': [0, 0], 'ex': [0, 0, 0, 0]}
  good = {'op': {'name': 'setitem', 'a': 0, 'b': 0, 'c': 0, 'vals': [5]},
          'out': 'ok', 'exc': '', 'ret': [], 'post': dict(S0, pre=[5]), 'stray': 0}
  bad = dict(good, post=dict(S0, pre=[6]))
  traces = [{'tid': 1, 'sig': sig, 'form': 'function', 'init': S0, 'events': [good]},
            {'tid': 2, 'sig': sig, 'form': 'function', 'init': S0, 'events': [bad]}]
  v = common.Verdict(PROP, 'model_checking')
  v.kf.entries = []
  accepted, _, _ = validate_traces(v, traces, workdir)
  if accepted != 1 or len(v.violations) != 1:
    raise common.MachineryError('Trace_C03 does not reject a corrupted trace')


def main():
  v = common.Verdict(PROP, 'model_checking')
  with common.scratch() as wd:
    sensitivity_selfcheck(wd)
    totals = run_mc(v, wd)
    ntr, acc, events = run_traces(v, wd)
    rtr, racc, revents = run_repo_tests(v, wd)
  v.coverage.update({
      'repo_test_traces': rtr, 'repo_test_traces_accepted': racc, 'repo_test_events_matched': revents,
      'states': totals['states'],
      'transitions': totals['transitions'],
      'traces_validated_against_impl': totals['replayed'] + ntr,
      'evaluations': totals['replayed'] + events,
      'distinct_nontrivial': totals['nontrivial'],
      'rule': 'S->C: one case per TLC-generated transition (distinct (signature, state, '
              'operation) by construction), replayed for each callable form; non-trivial = '
              'expected outcome ok and (state changes or a value is read). C->S: random '
              'histories on signatures of up to 6/8 parameters validated by Trace_C03; plus the traces of every '
              'edit the repository\'s own tests make on plain Buildables (pytest plugin), validated the same way.',
      'spec_selftest_vs_cpython_list': totals['selftest'],
      's2c_lines': totals['lines'], 's2c_replayed': totals['replayed'],
      's2c_dead_after_prefix_divergence': totals['dead'],
      'c2s_traces': ntr, 'c2s_accepted': acc, 'c2s_events_matched': events,
      'exhaustive': True,
  })
  v.assumptions += [
      'leaves are opaque objects with identity semantics; parameter defaults are distinct sentinel objects',
      'fdl.VARARGS is only used on callables that have *args; the **kwargs parameter\'s own name is not addressed',
      'callable forms exercised here: plain function and class __init__ (C01 covers the other forms)',
  ]
  return v.finish()


if __name__ == '__main__':
  common.main_wrapper(main)
