"""C05 — a failing callable surfaces faithfully and leaves no residue.

MC  : spec/MC_C05 — the build machine with faults (failing node, nested build,
      guard flag, repeated builds); invariants FlagReset, FailureIsLast,
      OnceAndDepsFirst, PathLeadsToFailing, NextBuildNormal and the action
      properties NoCallAfterFailure, ConfigUnchanged.
S->C: fault enumeration on the real library: every Buildable of every generated
      heap as the failing node x exception class shapes x diagnostic hazards;
      nested fdl.build inside a callable; repeated failures.
"""
from __future__ import annotations

import json
import os
import re

import fiddle as fdl

from harness import common
from harness import heap as H
from harness import pool

PROP = 'C05'


# --------------------------- exception class shapes -------------------------

class CustomInit(Exception):

  def __init__(self, code, detail):
    super().__init__(f'{code}:{detail}')
    self.code = code
    self.detail = detail


class StrOverride(Exception):

  def __str__(self):
    return 'str-override<' + ','.join(map(str, self.args)) + '>'


class Slotted(Exception):
  __slots__ = ('payload',)

  def __init__(self, payload):
    super().__init__(payload)
    self.payload = payload


class KwOnlyInit(Exception):

  def __init__(self, *, reason):
    super().__init__(reason)
    self.reason = reason


class BaseOnly(BaseException):
  pass


class _NoSub(type):

  def __new__(mcs, name, bases, ns):
    if any(isinstance(b, _NoSub) for b in bases):
      raise TypeError('cannot be subclassed')
    return super().__new__(mcs, name, bases, ns)


class Unsubclassable(Exception, metaclass=_NoSub):
  pass


def _make_twin():
  class Twin(Exception):
    """Factory-made class: every call yields a distinct class with the same module and qualname."""
  Twin.__qualname__ = 'Twin'
  return Twin


TwinA = _make_twin()
TwinB = _make_twin()

SHAPES = {
    'ValueError': lambda: ValueError('boom value'),
    'TwinA': lambda: TwinA('twin a'),
    'TwinB': lambda: TwinB('twin b'),
    'KeyError': lambda: KeyError('missing-key'),
    'CustomInit': lambda: CustomInit(7, 'custom detail'),
    'StrOverride': lambda: StrOverride('a', 'b'),
    'Slotted': lambda: Slotted('slot payload'),
    'KwOnlyInit': lambda: KwOnlyInit(reason='kw reason'),
    'OSError': lambda: OSError(2, 'No such file'),
    'BaseOnly': lambda: BaseOnly('base only'),
    'Unsubclassable': lambda: Unsubclassable('no subclass'),
}
WRAPPABLE = ['TwinA', 'TwinB', 'ValueError', 'TwinA', 'CustomInit', 'TwinB']


class BadRepr:

  def __repr__(self):
    raise RuntimeError('repr failed')


class Ctl:

  def __init__(self):
    self.log = []
    self.fail = set()
    self.nest = set()
    self.swallow = set()          # nodes whose callable tries nested builds and swallows the rejection
    self.swallowed = []           # outcome of each swallowed nested attempt
    self.shape = 'ValueError'
    self.last_exc = None


def make_fn(node_id, ctl):
  def node_fn(s1=H.dflt(1), s2=H.dflt(2), s3=H.dflt(3)):
    ctl.log.append(node_id)
    if node_id in ctl.fail:
      ctl.last_exc = SHAPES[ctl.shape]()
      raise ctl.last_exc
    if node_id in ctl.nest:
      fdl.build(fdl.Config(H.f1, s1=1))
    if node_id in ctl.swallow:
      for _ in range(3):
        try:
          fdl.build(fdl.Config(H.f1, s1=1))
          ctl.swallowed.append('accepted')
        except ValueError:
          ctl.swallowed.append('rejected')
        except Exception as e:  # pylint: disable=broad-except
          ctl.swallowed.append('other:' + type(e).__name__)
    return pool.Inst(1, {'s1': s1, 's2': s2, 's3': s3})
  node_fn.__qualname__ = f'node_fn_{node_id}'
  H.FN_ID[id(node_fn)] = 1
  return node_fn


def path_str(steps):
  out = ''
  for kind, key in steps:
    if kind in ('config', 'partial'):
      out += f'.s{key}'
    elif kind == 'dict':
      out += f"['k{key}']"
    else:
      out += f'[{key}]'
  return out


_PATH_RE = re.compile(r'Fiddle context: failed to construct or call (\S+) at <root>(\S*) with positional')


def follow(root, steps):
  cur = root
  for kind, key in steps:
    if kind in ('config', 'partial'):
      cur = getattr(cur, f's{key}')
    elif kind == 'dict':
      cur = cur[f'k{key}']
    else:
      cur = cur[key]
  return cur


def attempt(root, ctl):
  ctl.log.clear()
  pool.CALL_LOG.clear()
  try:
    r = fdl.build(root)
    return 'ok', r
  except BaseException as e:  # pylint: disable=broad-except
    return 'raise', e


def check_case(rec, objs, root, ctl, node, shape, diag, nested):
  """One fault: returns list of (features, message)."""
  mism = []
  ctl.fail = set() if nested else {node}
  ctl.nest = {node} if nested else set()
  ctl.shape = shape
  ctl.last_exc = None
  before, _ = H.project(root)
  base = {'exc_shape': 'nested-build' if nested else shape, 'diag': diag}
  def feat(clause, obs='raise'):
    return dict(base, clause=clause, observed=obs)
  out, e = attempt(root, ctl)
  if out != 'raise':
    return [(feat('failure-swallowed', 'ok'), f'build returned although node {node} fails')]
  log = list(ctl.log)
  # (d) the failing node is last; each once; dependencies first
  if not log or log[-1] != node:
    mism.append((feat('call-after-failure'), f'invocations {log}, failing node {node}'))
  if len(set(log)) != len(log):
    mism.append((feat('invoked-twice'), f'invocations {log}'))
  done = set()
  for o in log:
    if not set(rec['deps'][o - 1]) <= done:
      mism.append((feat('deps-first'), f'{o} before deps {rec["deps"][o - 1]}: {log}'))
      break
    done.add(o)
  # (a)(b) class and message
  if nested:
    if not isinstance(e, ValueError) or 'forbidden' not in str(e):
      mism.append((feat('nested-not-rejected', type(e).__name__),
                   f'nested build gave {type(e).__name__}: {str(e)[:120]}'))
    orig_msg = None
  else:
    orig = ctl.last_exc
    if not isinstance(e, type(orig)):
      mism.append((feat('class', type(e).__name__),
                   f'escaped {type(e).__name__}, original {type(orig).__name__}'))
    try:
      orig_msg = str(orig)
      if not str(e).startswith(orig_msg):
        mism.append((feat('message-prefix'), f'{str(e)[:80]!r} does not start with {orig_msg!r}'))
    except Exception as ee:  # pylint: disable=broad-except
      mism.append((feat('message-raises'), f'str() of escaped exception raised {ee!r}'))
  # (c) the path
  try:
    m = _PATH_RE.search(str(e))
  except Exception:  # pylint: disable=broad-except
    m = None
  valid = {path_str(p) for p in rec['paths'][node - 1]}
  if m is None:
    mism.append((feat('path-missing'), f'no Fiddle path in message {str(e)[:100]!r}'))
  else:
    got = m.group(2)
    if got not in valid:
      mism.append((feat('path-wrong'), f'path {got!r} not among {sorted(valid)}'))
    else:
      steps = next(p for p in rec['paths'][node - 1] if path_str(p) == got)
      if follow(root, steps) is not objs[node]:
        mism.append((feat('path-not-identity'), f'path {got!r} does not reach node {node}'))
  # (e) configuration unchanged
  after, _ = H.project(root)
  if after != before:
    mism.append((feat('config-mutated'), 'configuration changed by a failed build'))
  # (f) next build normal
  ctl.fail, ctl.nest = set(), set()
  out2, r2 = attempt(root, ctl)
  if out2 != 'ok':
    mism.append((feat('next-build-fails'), f'next build raised {type(r2).__name__}: {str(r2)[:100]}'))
  else:
    built, _ = H.project(r2)
    exp = [dict(o, k='inst' if o['k'] == 'config' else o['k']) for o in before]
    if H.strip_tags(built) != [{k: v for k, v in o.items() if k != 'tags'} for o in exp]:
      # diag objects (BadRepr) are foreign leaves; compare only when no diag hazard was injected
      if diag == 'none':
        mism.append((feat('next-build-differs'), 'result of the next build differs from C02 expectation'))
  return mism


def check_heap(rec, rot):
  mism = []
  ncases = 0
  hp = rec['heap']
  nodes = [i + 1 for i, b in enumerate(rec['buildables']) if b]
  quick = common.tier() == 'quick'
  shapes = list(SHAPES)
  for node in nodes:
    ctl = Ctl()
    rz = H.Realizer(hp, fn_for=lambda i, o: make_fn(i, ctl))
    root = rz.obj(1)
    objs = rz.objs
    diag = 'none'
    if rot % 5 == 0:
      free = [s for s in (1, 2, 3) if s not in [it['key'] for it in hp[node - 1]['items']]]
      if free:
        setattr(objs[node], f's{free[-1]}', BadRepr())
        diag = 'repr-raises'
    todo = ([shapes[(rot + node) % len(shapes)], shapes[(rot + node + 4) % len(shapes)]]
            if quick else shapes)
    for shape in todo:
      mism += check_case(rec, objs, root, ctl, node, shape, diag, nested=False)
      ncases += 1
    if not quick or (rot + node) % 3 == 0:
      mism += check_case(rec, objs, root, ctl, node, 'ValueError', diag, nested=True)
      ncases += 1
    # a callable that swallows the rejection of its nested fdl.build and tries again:
    # every attempt made while the outer build runs must be rejected
    if (rot + node) % 2 == 0 or not quick:
      ctl.fail, ctl.nest, ctl.swallow, ctl.swallowed = set(), set(), {node}, []
      out, r = attempt(root, ctl)
      ncases += 1
      if out != 'ok' or ctl.swallowed != ['rejected'] * 3:
        mism.append(({'clause': 'nested-build-accepted', 'exc_shape': 'nested-swallowed',
                      'diag': diag, 'observed': ','.join(ctl.swallowed) or out},
                     f'nested attempts inside node {node}: {ctl.swallowed}, outer build {out}'))
      ctl.swallow = set()
      out, r = attempt(root, ctl)
      if out != 'ok':
        mism.append(({'clause': 'next-build-fails', 'exc_shape': 'nested-swallowed', 'diag': diag,
                      'observed': 'raise'}, f'build after swallowed nested attempts: {r!r}'))
    # repeated failures in sequence, then a good build
    if (rot + node) % 7 == 0:
      for k in range(3):
        mism += check_case(rec, objs, root, ctl, node, WRAPPABLE[(rot + k) % len(WRAPPABLE)], diag, False)
        ncases += 1
    for i in list(H.FN_ID):
      pass
  return mism, ncases


def work(lines):
  stats = {'lines': 0, 'cases': 0, 'nontrivial': 0}
  mismatches = []
  sample = None
  for line in lines:
    rec = common.decode_line(line)
    stats['lines'] += 1
    rot = sum(len(o['items']) * (i + 3) for i, o in enumerate(rec['heap'])) + len(rec['heap'])
    keep = dict(H.FN_ID)
    mism, n = check_heap(rec, rot)
    H.FN_ID.clear()
    H.FN_ID.update(keep)
    stats['cases'] += n
    if n and len(rec['heap']) >= 2:
      stats['nontrivial'] += n
    for f, msg in mism:
      mismatches.append((f, {'heap': rec['heap'], 'message': msg}))
    if sample is None and n and len(rec['heap']) >= 3:
      sample = {'heap': rec['heap'], 'failing_nodes': [i + 1 for i, b in enumerate(rec['buildables']) if b],
                'valid_paths': [[path_str(p) for p in ps] for ps in rec['paths']]}
  return stats, mismatches, sample


class _WeirdCallable:
  """A callable whose __qualname__ lookup fails with a non-AttributeError."""

  def __getattr__(self, name):
    if name == '__qualname__':
      raise RuntimeError('qualname failed')
    raise AttributeError(name)

  def __call__(self, s1=0):
    raise ValueError('inner failure')


def diag_failure_scenario():
  """Formatting the diagnostic itself fails."""
  cfg = fdl.Config(H.f1, s1=[fdl.Config(_WeirdCallable(), s1=1)])
  base = {'exc_shape': 'ValueError', 'diag': 'format-fails'}
  try:
    fdl.build(cfg)
  except ValueError as e:
    out = []
    if not str(e).startswith('inner failure'):
      out.append((dict(base, clause='message-prefix', observed='raise'), str(e)[:100]))
    if not _PATH_RE.search(str(e)):
      out.append((dict(base, clause='path-missing', observed='raise'),
                  f'no path when formatting the diagnostic fails: {str(e)[:80]!r}'))
    try:
      fdl.build(fdl.Config(H.f1, s1=1))
    except Exception as e2:  # pylint: disable=broad-except
      out.append((dict(base, clause='next-build-fails', observed='raise'), repr(e2)[:100]))
    return out
  except Exception as e:  # pylint: disable=broad-except
    return [(dict(base, clause='class', observed=type(e).__name__), str(e)[:100])]
  return [(dict(base, clause='failure-swallowed', observed='ok'), 'no exception')]


class _FailingInstance:
  """A callable object: it has neither __qualname__ nor __name__."""

  def __call__(self, s1=0):
    raise KeyError('instance failure')


def _fail_with(code):
  raise ValueError(f'failure {code}')


def _reraise(exc):
  raise exc


def unnamed_and_reraised_scenarios():
  """Callables without a name (instances, functools.partial objects), and exceptions that already carry a
  path from an earlier build: the escaping exception names a path of THIS build that leads to the failing
  Buildable."""
  import functools  # pylint: disable=g-import-not-at-top
  out = []
  def check(name, cfg, exc_type, prefix, want_path):
    base = {'exc_shape': exc_type.__name__, 'diag': name}
    try:
      fdl.build(cfg)
    except BaseException as e:  # pylint: disable=broad-except
      if not isinstance(e, exc_type):
        out.append((dict(base, clause='class', observed=type(e).__name__), f'{name}: {type(e).__name__}'))
      elif prefix not in str(e):
        out.append((dict(base, clause='message-prefix', observed='raise'), f'{name}: {str(e)[:120]!r}'))
      elif want_path not in str(e):
        out.append((dict(base, clause='path-missing', observed='raise'),
                    f'{name}: the message does not name {want_path}: {str(e)[:200]!r}'))
      return e
    out.append((dict(base, clause='failure-swallowed', observed='ok'), f'{name}: no exception'))
    return None
  check('callable-instance', fdl.Config(H.f1, s1=[fdl.Config(_FailingInstance(), s1=1)]), KeyError,
        'instance failure', '.s1[0]')
  check('functools-partial-callable', fdl.Config(H.f1, s2={'k1': fdl.Config(functools.partial(_fail_with, 3))}),
        ValueError, 'failure 3', ".s2['k1']")
  first = check('first-failure', fdl.Config(H.f1, s1=fdl.Config(_fail_with, 7)), ValueError, 'failure 7', '.s1')
  if first is not None:
    # the exception that escaped is raised again by a callable at another place of another configuration
    check('reraised-decorated-exception',
          fdl.Config(H.f1, s1=fdl.Config(H.g4, s1=1), s3=[0, {'k2': fdl.Config(_reraise, first)}]),
          ValueError, 'failure 7', ".s3[1]['k2']")
  return out


def main():
  v = common.Verdict(PROP, 'fault_enumeration')
  quick = common.tier() == 'quick'
  inter = dict(MaxObjs=3, MaxItems=2, NLeaves=1, NKeys=1, NSlots=2,
               KindSet={'config', 'list', 'dict'}, MaxBuilds=2, WithBuild=True, EmitOn=False)
  gen = dict(MaxObjs=4, MaxItems=2, NLeaves=1, NKeys=1 if quick else 2, NSlots=2,
             KindSet={'config', 'list', 'dict'} if quick else {'config', 'list', 'dict', 'tuple'},
             MaxBuilds=1, WithBuild=False, EmitOn=True)
  invs = ['FlagReset', 'FailureIsLast', 'OnceAndDepsFirst', 'PathLeadsToFailing',
          'NextBuildNormal', 'EmitHeap']
  props = ['NoCallAfterFailure', 'ConfigUnchanged']
  with common.scratch() as wd:
    r1 = common.run_tlc('MC_C05', common.cfg_text(inter, constraints=['Prune'], invariants=invs,
                                                  properties=props),
                        workdir=os.path.join(wd, 'inter'))
    common.require_tlc_ok(r1, 'MC_C05/faults')
    disp = common.Dispatcher(work, chunk=100)
    r2 = common.run_tlc('MC_C05', common.cfg_text(gen, constraints=['Prune'], invariants=invs),
                        workdir=os.path.join(wd, 'gen'), on_json=disp)
    common.require_tlc_ok(r2, 'MC_C05/generation')
    totals = {'lines': 0, 'cases': 0, 'nontrivial': 0}
    for stats, mism, sample in disp.results():
      for k in totals:
        totals[k] += stats[k]
      for f, case in mism:
        v.mismatch(f, case)
      if sample:
        v.sample(sample)
    for f, msg in diag_failure_scenario() + unnamed_and_reraised_scenarios():
      v.mismatch(f, {'message': msg})
  v.coverage.update({
      'evaluations': totals['cases'], 'distinct_nontrivial': totals['nontrivial'],
      'rule': 'one case = (complete heap generated by TLC, failing Buildable, exception class shape, '
              'diagnostic hazard | nested build | repeated failure); distinct by construction; '
              'non-trivial = heap with at least two objects',
      'states': r1.distinct + r2.distinct, 'transitions': r1.generated + r2.generated,
      'traces_validated_against_impl': totals['cases'],
      'fault_model': r1.as_dict(), 'generation_model': r2.as_dict(),
      'exception_shapes': list(SHAPES), 'heaps': totals['lines'],
      'exhaustive': not quick,
  })
  v.assumptions += [
      'the path is read from the "Fiddle context: ... at <root>PATH with positional arguments" clause of the message',
      'quick tier rotates two exception shapes per failing node; thorough uses all nine for every node',
  ]
  return v.finish()


if __name__ == '__main__':
  common.main_wrapper(main)
