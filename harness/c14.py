"""C14 — tags select exactly the tagged arguments and survive every transformation.

MC  : spec/MC_C14 (FdlGen + FdlTags): for every configuration with tags in the
      bound and every tag operation, the pointwise statement of the property
      (AssignLaw: matching arguments hold v, every other argument and every tag
      set unchanged; EditLaw for per-argument tag edits).
S->C: every (heap, operation) line is replayed: outcome, projected post-heap,
      result of iteration / list_tags.
C->S: random larger tagged configurations, operations recorded from the real
      library and judged by spec/Trace_C14 (same ApplyTagOp).
Scenarios: tags on positional-only, *args and **kwargs arguments, annotation
      tags, Tag.new, survival through JSON and diff application.
"""
from __future__ import annotations

import copy
import json
import os
import random
import typing

import fiddle as fdl
from fiddle import selectors
from fiddle._src import tagging
from fiddle._src import diffing
from fiddle._src.experimental import serialization

from harness import common
from harness import heap as H
from harness import c02

PROP = 'C14'
TAG_OF = {1: H.T0, 2: H.T1, 4: H.T2}


def do_op(root, op, keep):
  """Runs the real operation.  Returns (out, ret)."""
  name = op['name']
  tag = TAG_OF.get(op['tag'])
  try:
    if name in ('set_tagged', 'replace', 'replace_shared'):
      v = op['val'] if op['val'] > 0 else fdl.Config(H.f1)
      if name == 'set_tagged':
        tagging.set_tagged(root, tag=tag, value=v)
      else:
        selectors.select(root, tag=tag).replace(v, deepcopy=(name == 'replace'))
      return 'ok', None
    if name == 'iter':
      return 'ok', list(selectors.select(root, tag=tag))
    if name in ('list_tags', 'list_tags_super'):
      return 'ok', H.tag_mask(tagging.list_tags(root, add_superclasses=name.endswith('super')))
    target = keep[op['obj'] - 1]
    arg = H.slot_name(op['key'])
    if name == 'add_tag':
      tagging.add_tag(target, arg, tag)
    elif name == 'remove_tag':
      tagging.remove_tag(target, arg, tag)
    elif name == 'set_tags':
      tagging.set_tags(target, arg, H.tags_of(op['tag']))
    elif name == 'clear_tags':
      tagging.clear_tags(target, arg)
    else:
      raise ValueError(name)
    return 'ok', None
  except Exception as e:  # pylint: disable=broad-except
    return 'raise:' + type(e).__name__, None


def yielded_multiset(values, root):
  p = H.Projector()
  p.val(root)
  out = {}
  for v in values:
    if v is fdl.NO_VALUE:
      k = 999
    elif isinstance(v, int):
      k = v
    else:
      i = p.ids.get(id(v))
      k = -i if i else 0
    out[str(k)] = out.get(str(k), 0) + 1
  return out


def check_line(rec):
  hp, op = rec['heap'], rec['op']
  root, _ = H.realize(hp)
  p = H.Projector()
  p.val(root)
  if p.heap != hp:
    raise common.MachineryError(f'round trip: {hp} -> {p.heap}')
  out, ret = do_op(root, op, p.keep)
  post, _ = H.project(root)
  base = {'op': op['name'], 'tag': op['tag'], 'val': 'buildable' if op['val'] < 0 else 'leaf'}
  def feat(clause, **kw):
    return dict(base, clause=clause, **kw)
  mism = []
  if out.split(':')[0] != rec['out']:
    mism.append((feat('outcome', expected=rec['out'], observed=out),
                 f'{op}: expected {rec["out"]}, observed {out}'))
    if out != 'ok' and post != hp:
      mism.append((feat('raise-not-unchanged', observed=out), f'{op} raised but changed the configuration'))
    return mism
  if post != rec['post']:
    mism.append((feat('post-state'), f'{op}: post {json.dumps(post)} spec {json.dumps(rec["post"])}'))
  if op['name'] == 'iter':
    got = yielded_multiset(ret, root)
    exp = {str(p[0]): p[1] for p in rec['ret']}
    if got != exp:
      mism.append((feat('iter-values'), f'iteration yielded {got}, spec {exp}'))
  if op['name'].startswith('list_tags') and [ret] != rec['ret']:
    mism.append((feat('list-tags'), f'list_tags gave mask {ret}, spec {rec["ret"]}'))
  return mism


def work(lines):
  stats = {'lines': 0, 'nontrivial': 0}
  mismatches = []
  sample = None
  for line in lines:
    rec = common.decode_line(line)
    stats['lines'] += 1
    for f, msg in check_line(rec):
      mismatches.append((f, {'heap': rec['heap'], 'op': rec['op'], 'message': msg[:700]}))
    if rec['post'] != rec['heap'] or rec['ret']:
      stats['nontrivial'] += 1
    if sample is None and rec['op']['name'] == 'set_tagged' and rec['post'] != rec['heap']:
      sample = {k: rec[k] for k in ('heap', 'op', 'post')}
  return stats, mismatches, sample


# ----------------------------------------------------------------------------
# C->S
# ----------------------------------------------------------------------------

def record_random(rng, n):
  recs = []
  for _ in range(n):
    hp = c02.random_heap(rng, rng.randint(2, 8), kinds=('config', 'config', 'list', 'dict', 'tuple'))
    for o in hp:
      if o['k'] == 'config':
        for it in o['items']:
          if rng.random() < 0.45:
            it['tg'] = rng.choice([1, 2, 4, 3, 5, 6])
    root, _ = H.realize(hp)
    p = H.Projector()
    p.val(root)
    hp = p.heap
    bl = [i + 1 for i, o in enumerate(hp) if o['k'] == 'config']
    name = rng.choice(['set_tagged', 'replace', 'replace_shared', 'iter', 'list_tags',
                       'list_tags_super', 'add_tag', 'remove_tag', 'set_tags', 'clear_tags'])
    op = {'name': name, 'tag': rng.choice([1, 2, 4]), 'val': rng.choice([8, -1]), 'obj': 0, 'key': 0}
    if name in ('add_tag', 'remove_tag', 'set_tags', 'clear_tags'):
      if not bl:
        continue
      op['obj'] = rng.choice(bl)
      op['key'] = rng.randint(1, 3)
      if name == 'set_tags':
        op['tag'] = rng.choice([1, 2, 4, 3, 6])
    out, ret = do_op(root, op, p.keep)
    post, _ = H.project(root)
    r = {'tid': len(recs) + 1, 'heap': hp, 'op': op, 'out': out.split(':')[0], 'post': post,
         'iter': [], 'mask': 0}
    if name == 'iter' and out == 'ok':
      ms = yielded_multiset(ret, root)
      r['iter'] = sorted([int(k), c] for k, c in ms.items())
    if name.startswith('list_tags') and out == 'ok':
      r['mask'] = ret
    recs.append(r)
  return recs


def validate_random(v, recs, wd):
  os.makedirs(wd, exist_ok=True)
  path = os.path.join(wd, 'c14traces.json')
  with open(path, 'w') as f:
    json.dump(recs, f)
  verdicts = {}
  def on_json(line):
    r = common.decode_line(line)
    verdicts[r['tid']] = r
  res = common.run_tlc('Trace_C14', common.cfg_text({}, init='TInit', next_='TNext'),
                       workdir=os.path.join(wd, 'tr'), on_json=on_json, workers=1,
                       env={'TRACE_FILE': path})
  common.require_tlc_ok(res, 'Trace_C14')
  if len(verdicts) != len(recs):
    raise common.MachineryError(f'Trace_C14 judged {len(verdicts)} of {len(recs)} records')
  acc = 0
  for r in recs:
    vd = verdicts[r['tid']]
    if vd['ok']:
      acc += 1
    else:
      v.mismatch({'clause': 'trace-rejected', 'failed': vd['failed'], 'op': r['op']['name']},
                 {'heap': r['heap'], 'op': r['op'],
                  'message': f'observed {r["out"]} post={json.dumps(r["post"])[:300]} rejected: {vd["failed"]}'})
  return acc


# ----------------------------------------------------------------------------
# scenarios outside the heap machine's signature shape
# ----------------------------------------------------------------------------

def pos_fn(a, b=2, /, c=3, *rest, k=0, **kw):
  return (a, b, c, rest, k, kw)


def ann_fn(x: typing.Annotated[int, H.T0] = 1, y: typing.Annotated[int, H.T1, H.T2] = 2, z=3):
  return (x, y, z)


def scenarios():
  out = []
  def probe(name, fn, key=None):
    try:
      r = fn()
    except Exception as e:  # pylint: disable=broad-except
      out.append(({'clause': 'scenario', 'scenario': name, 'observed': 'raise:' + type(e).__name__},
                  f'{name}: {type(e).__name__}: {str(e)[:120]}'))
      return
    if r is not True:
      out.append(({'clause': 'scenario', 'scenario': name, 'observed': 'wrong'}, f'{name}: {r}'))
  def s_posonly_set_tagged():
    cfg = fdl.Config(pos_fn, 1, 2)
    tagging.add_tag(cfg, 0, H.T0)
    tagging.set_tagged(cfg, tag=H.T0, value=8)
    return cfg[0] == 8 and cfg[1] == 2 or f'cfg[:]={cfg[:]}'
  def s_posonly_replace():
    cfg = fdl.Config(pos_fn, 1, 2)
    tagging.add_tag(cfg, 1, H.T1)
    selectors.select(cfg, tag=H.T0).replace(8)
    return cfg[1] == 8 and cfg[0] == 1 or f'cfg[:]={cfg[:]}'
  def s_varargs_tag():
    cfg = fdl.Config(pos_fn, 1, 2, 3, 4, 5)
    tagging.add_tag(cfg, 4, H.T2)
    tagging.set_tagged(cfg, tag=H.T2, value=8)
    return cfg[:] == [1, 2, 3, 4, 8] or f'cfg[:]={cfg[:]}'
  def s_index_of_pk():
    cfg = fdl.Config(pos_fn, 1, 2, 3)
    tagging.set_tags(cfg, 2, [H.T0])
    keys = {k for k, t in cfg.__argument_tags__.items()}
    ok = tagging.get_tags(cfg, 'c') == frozenset([H.T0]) and all(
        isinstance(k, str) or (isinstance(k, int) and k < 2) for k in keys)
    return ok or f'tag keys {sorted(map(str, keys))}, tags(c)={tagging.get_tags(cfg, "c")}'
  def s_kwargs():
    cfg = fdl.Config(pos_fn, 1, extra=5, other=6)
    tagging.add_tag(cfg, 'extra', H.T0)
    tagging.set_tagged(cfg, tag=H.T0, value=8)
    return (cfg.extra == 8 and cfg.other == 6 and tagging.list_tags(cfg) == frozenset([H.T0])
            ) or f'{cfg}'
  def s_annotations():
    cfg = fdl.Config(ann_fn)
    ok = (tagging.get_tags(cfg, 'x') == frozenset([H.T0])
          and tagging.get_tags(cfg, 'y') == frozenset([H.T1, H.T2]))
    tagging.set_tagged(cfg, tag=H.T0, value=8)
    return (ok and cfg.x == 8 and cfg.y == 8 and cfg.z == 3 and fdl.build(cfg) == (8, 8, 3)
            ) or f'{cfg}'
  def s_tag_new():
    cfg = fdl.Config(H.f1, s1=H.T1.new(5), s2=[H.T2.new(6), H.T2.new()])
    ok = cfg.s1 == 5 and tagging.get_tags(cfg, 's1') == frozenset([H.T1])
    try:
      fdl.build(cfg)
      return 'build succeeded with an unset TaggedValue'
    except Exception:  # pylint: disable=broad-except
      pass
    tagging.set_tagged(cfg, tag=H.T2, value=7)
    b = fdl.build(cfg)
    from harness import pool
    a = pool.inst_of(b).args
    return (ok and a['s1'] == 5 and a['s2'] == [7, 7]) or f'{a}'
  def s_json():
    cfg = fdl.Config(H.f1, s1=fdl.Config(H.g4, s1=1), s2=2)
    tagging.add_tag(cfg, 's2', H.T1)
    tagging.add_tag(cfg.s1, 's3', H.T2)          # tag without value
    back = serialization.load_json(serialization.dump_json(cfg))
    return H.project(back)[0] == H.project(cfg)[0] or f'{H.project(back)[0]}'
  def s_diff():
    old = fdl.Config(H.f1, s1=fdl.Config(H.g4, s1=1), s2=2)
    new = copy.deepcopy(old)
    tagging.add_tag(new, 's2', H.T1)
    tagging.add_tag(new.s1, 's3', H.T2)
    tagging.add_tag(old, 's3', H.T0)
    d = diffing.build_diff(old, new)
    tgt = copy.deepcopy(old)
    diffing.apply_diff(d, tgt)
    return H.project(tgt)[0] == H.project(new)[0] or f'{H.project(tgt)[0]}'
  def s_posonly_iter_default():
    cfg = fdl.Config(pos_fn, 1)
    tagging.add_tag(cfg, 1, H.T0)           # positional-only parameter b=2, unset
    tagging.add_tag(cfg, 0, H.T0)
    got = sorted(selectors.select(cfg, tag=H.T0))
    return got == [1, 2] or f'iteration yielded {got}, expected the value 1 and the default 2'
  def s_annotation_plus_ctor_tag():
    cfg = fdl.Config(ann_fn, x=H.T2.new(5), y=6)
    ok = (tagging.get_tags(cfg, 'x') == frozenset([H.T0, H.T2]) and cfg.x == 5
          and tagging.get_tags(cfg, 'y') == frozenset([H.T1, H.T2]))
    cfg2 = fdl.Config(ann_fn, H.T2.new(5))
    ok2 = tagging.get_tags(cfg2, 'x') == frozenset([H.T0, H.T2])
    return (ok and ok2) or f'tags x={tagging.get_tags(cfg, "x")} / positional {tagging.get_tags(cfg2, "x")}'
  def s_reused_tagged_value():
    tv = H.T0.new(1)
    cfg = fdl.Config(H.f1, s1=tv, s2=tv)
    cfg.s3 = tv
    tagging.add_tag(cfg, 's1', H.T2)
    tagging.clear_tags(cfg, 's3')
    got = {k: tagging.get_tags(cfg, k) for k in ('s1', 's2', 's3')}
    exp = {'s1': frozenset([H.T0, H.T2]), 's2': frozenset([H.T0]), 's3': frozenset()}
    sets = [id(s) for s in cfg.__argument_tags__.values()] + [id(tv.__argument_tags__['value'])]
    return (got == exp and len(set(sets)) == len(sets) and tv.tags == {H.T0}) or f'{got}'
  def s_json_many():
    nodes = [fdl.Config(H.g4, s1=i) for i in range(6)]
    masks = [1, 2, 4, 3, 5, 6]
    for n, m in zip(nodes, masks):
      for t in H.tags_of(m):
        tagging.add_tag(n, 's2', t)
    cfg = fdl.Config(H.f1, s1=nodes[:3], s2={'k1': nodes[3], 'k2': nodes[4]}, s3=nodes[5])
    tagging.add_tag(cfg, 's1', H.T1)
    back = serialization.load_json(serialization.dump_json(cfg))
    return H.project(back)[0] == H.project(cfg)[0] or f'{H.project(back)[0]}'
  for name, fn in [('posonly-iter-default', s_posonly_iter_default),
                   ('annotation-plus-constructor-tag', s_annotation_plus_ctor_tag),
                   ('reused-TaggedValue', s_reused_tagged_value), ('survive-json-many-nodes', s_json_many),
                   ('posonly-set_tagged', s_posonly_set_tagged), ('posonly-select-replace', s_posonly_replace),
                   ('varargs-tag', s_varargs_tag), ('set_tags-by-index-on-pk', s_index_of_pk),
                   ('kwargs-tag', s_kwargs), ('annotation-tags', s_annotations),
                   ('Tag.new', s_tag_new), ('survive-json', s_json), ('survive-diff', s_diff)]:
    probe(name, fn)
  return out, 13


def main():
  v = common.Verdict(PROP, 'model_checking')
  quick = common.tier() == 'quick'
  base = dict(MaxItems=2, NLeaves=1, NKeys=1, NSlots=2, NFns=1, EmitOn=True)
  if quick:
    runs = [dict(base, MaxObjs=2, KindSet={'config', 'list', 'dict', 'tagged'}, TagChoices={0, 2, 4},
                 UnsetTagged=True),
            dict(base, MaxObjs=3, KindSet={'config', 'list'}, TagChoices={0, 2}, UnsetTagged=False)]
  else:
    runs = [dict(base, MaxObjs=3, KindSet={'config', 'list', 'dict', 'tagged'}, TagChoices={0, 2, 4},
                 UnsetTagged=True)]
  with common.scratch() as wd:
    totals = {'lines': 0, 'nontrivial': 0}
    res = None
    for n, c in enumerate(runs):
      disp = common.Dispatcher(work, chunk=500)
      r = common.run_tlc('MC_C14', common.cfg_text(c, constraints=['GenPrune'], invariants=['Laws', 'Emit']),
                         workdir=os.path.join(wd, f'mc{n}'), on_json=disp)
      common.require_tlc_ok(r, 'MC_C14')
      for stats, mism, sample in disp.results():
        for k in totals:
          totals[k] += stats[k]
        for f, case in mism:
          v.mismatch(f, case)
        if sample:
          v.sample(sample)
      if res is None:
        res = r
      else:
        res.distinct += r.distinct
        res.generated += r.generated
        res.lines += r.lines
    rng = random.Random(common.seed() * 67867967 + 5)
    recs = record_random(rng, 500 if quick else 5000)
    cand = next((r for r in recs if r['op']['name'] == 'set_tagged' and r['post'] != r['heap']), None)
    if cand:
      vneg = common.Verdict(PROP, 'model_checking')
      vneg.kf.entries = []
      if validate_random(vneg, [dict(cand, tid=1, post=cand['heap'])], os.path.join(wd, 'neg')):
        raise common.MachineryError('Trace_C14 accepted a set_tagged that changed nothing')
    accepted = validate_random(v, recs, os.path.join(wd, 'c2s'))
    sc, nsc = scenarios()
    # tags on every kind of argument (positional cells, **kwargs names, with and without a value) survive
    # every copying / serializing transformation: all FdlStore states through all codecs
    from harness import storecodec  # pylint: disable=g-import-not-at-top
    store_stats = storecodec.run(v, wd, quick, dict(storecodec.COPY_CODECS, **storecodec.JSON_CODECS))
    # ... and diff application: hand-made pairs with callable changes, moved subtrees and tag edits
    from harness import c10  # pylint: disable=g-import-not-at-top
    import random as _random  # pylint: disable=g-import-not-at-top
    ndiff = 0
    for old, new, label in c10.handmade_pairs(_random.Random(common.seed() * 2246822519 + 5), 40 if quick else 400):
      ndiff += 1
      try:
        d = diffing.build_diff(old, new)
        tgt = copy.deepcopy(old)
        diffing.apply_diff(d, tgt)
      except Exception:  # judged by C10  # pylint: disable=broad-except
        continue
      if H.project_sorted(tgt)[0] != H.project_sorted(new)[0]:
        v.mismatch({'clause': 'tags-after-diff-application', 'pair': label},
                   {'message': f'{H.project_sorted(tgt)[0]} expected {H.project_sorted(new)[0]}'})
    for f, msg in sc:
      v.mismatch(f, {'message': msg})
  v.coverage.update({
      'store_states_round_tripped': store_stats, 'handmade_diff_pairs': ndiff,
      'states': res.distinct, 'transitions': res.generated,
      'traces_validated_against_impl': totals['lines'] + len(recs),
      'evaluations': totals['lines'] + len(recs) + nsc, 'distinct_nontrivial': totals['nontrivial'],
      'rule': 'one case per (complete tagged heap from TLC, tag operation); non-trivial = the operation changes '
              'the heap or returns a non-empty result. C->S: random tagged heaps of up to 8 objects with one '
              'recorded operation each, judged by Trace_C14. 9 scenarios for signature shapes outside the heap '
              'machine.',
      'c2s_records': len(recs), 'c2s_accepted': accepted, 'scenarios': nsc, 'model': res.as_dict(),
      'exhaustive': True,
  })
  v.assumptions += [
      'the value given to set_tagged / replace is a leaf or a Buildable without arguments tagged with the '
      'selected tag (otherwise it would have to contain itself)',
  ]
  return v.finish()


if __name__ == '__main__':
  common.main_wrapper(main)
