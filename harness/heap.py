"""Abstract heaps (spec/FdlHeap.tla) <-> real fiddle object graphs.

Abstract heap (JSON): list of objects {k, fn, items:[{key, val}], [tags]}, ids
are 1-based positions, val > 0 leaf, val < 0 reference.  Canonical = numbered
by first visit from the root (depth-first, children in item order).
"""
from __future__ import annotations

import collections
import json
import dataclasses
import typing

import fiddle as fdl
from fiddle._src import config as config_lib
from fiddle._src import daglish
from fiddle._src import partial as partial_lib
from fiddle.experimental import auto_config  # noqa: F401  pylint: disable=unused-import

from harness import pool

NSLOTS = 3


def dflt(s):
  """Default value of parameter slot s (an int, so that it has value semantics)."""
  return 1000 + s


def _rec(fid, s1, s2, s3):
  return pool.Inst(fid, {'s1': s1, 's2': s2, 's3': s3})


def f1(s1=dflt(1), s2=dflt(2), s3=dflt(3)):
  return _rec(1, s1, s2, s3)


class ClsA:

  def __init__(self, s1=dflt(1), s2=dflt(2), s3=dflt(3)):
    self.inst = _rec(2, s1, s2, s3)


class ClsB(ClsA):

  def __init__(self, s1=dflt(1), s2=dflt(2), s3=dflt(3)):  # pylint: disable=super-init-not-called
    self.inst = _rec(3, s1, s2, s3)


def g4(s1=dflt(1), s2=dflt(2), s3=dflt(3)):
  return _rec(4, s1, s2, s3)


class Maker:
  """Alternate constructors: classmethods are equal but not identical on every access."""

  @classmethod
  def make(cls, s1=dflt(1), s2=dflt(2), s3=dflt(3)):
    return _rec(1, s1, s2, s3)


FNS = {1: f1, 2: ClsA, 3: ClsB, 4: g4}
FN_ID = {id(v): k for k, v in FNS.items()}
FN_VARIANT = 0     # 1: callable 1 is the classmethod Maker.make, looked up afresh every time


def fn_obj(i):
  if FN_VARIANT == 1 and i == 1:
    return Maker.make
  return FNS[i]


def fn_id_of(fn):
  k = FN_ID.get(id(fn))
  if k is not None:
    return k
  try:
    if fn == Maker.make:
      return 1
  except Exception:  # pylint: disable=broad-except
    pass
  return -1


def fn_code(fn):
  """fn_id_of, but callables outside the pool get a stable negative code of their own (module + name),
  so that two foreign callables are still told apart."""
  k = fn_id_of(fn)
  if k != -1:
    return k
  import zlib  # pylint: disable=g-import-not-at-top
  name = f"{getattr(fn, '__module__', '?')}.{getattr(fn, '__qualname__', repr(fn))}"
  return -(1000 + zlib.crc32(name.encode()) % 100000)

NT2 = collections.namedtuple('NT2', ['n0', 'n1'])


class T0(fdl.Tag):
  """Base tag (bit 0)."""


class T1(T0):
  """Subclass of T0 (bit 1)."""


class T2(fdl.Tag):
  """Unrelated tag (bit 2)."""


TAGS = [T0, T1, T2]


def tags_of(mask):
  return [t for b, t in enumerate(TAGS) if mask & (1 << b)]


def tag_mask(tags):
  m = 0
  for t in tags:
    if t in TAGS:
      m |= 1 << TAGS.index(t)
    else:
      m |= 1 << 7       # a tag the model does not know
  return m


def slot_name(s):
  return f's{s}'


def key_obj(k):
  """Dict key id -> real key (key id 3 is the int 3: dicts may mix key types)."""
  return 3 if k == 3 else f'k{k}'


def leaf_obj(n):
  return n


LEAF_BACK = {}     # real leaf object -> leaf id, for checks that override leaf_obj


class Realizer:
  """Builds real objects for an abstract heap, bottom-up by dependency."""

  def __init__(self, heap, buildable_types=None, fn_for=None):
    self.heap = heap
    self.objs = {}
    self.types = buildable_types or {'config': fdl.Config, 'partial': fdl.Partial,
                                     'argfactory': fdl.ArgFactory}
    self.fn_for = fn_for or (lambda i, o: fn_obj(o['fn']))

  def val(self, v):
    if v > 0:
      return leaf_obj(v)  # looked up at call time (checks may override it)
    return self.obj(-v)

  def obj(self, i):
    if i in self.objs:
      return self.objs[i]
    o = self.heap[i - 1]
    k = o['k']
    items = o['items']
    if k in ('config', 'partial', 'argfactory'):
      kwargs = {slot_name(it['key']): self.val(it['val']) for it in items if it['val'] != 0}
      r = self.types[k](self.fn_for(i, o), **kwargs)
      for it in items:
        for t in tags_of(it.get('tg', 0)):
          fdl.add_tag(r, slot_name(it['key']), t)
    elif k == 'tagged':
      from fiddle._src import tagging  # pylint: disable=g-import-not-at-top
      it = items[0]
      r = tagging.TaggedValue(tags=tags_of(it.get('tg', 1)) or [T0],
                              default=fdl.NO_VALUE if it['val'] == 0 else self.val(it['val']))
    elif k == 'mleaf':
      r = {7}                      # a set: mutable, compared by value, not traversable
    elif k == 'list':
      r = [self.val(it['val']) for it in items]
    elif k == 'tuple':
      r = tuple(self.val(it['val']) for it in items)
    elif k == 'ntuple':
      r = NT2(*[self.val(it['val']) for it in items])
    elif k == 'dict':
      r = {key_obj(it['key']): self.val(it['val']) for it in items}
    else:
      raise ValueError(k)
    self.objs[i] = r
    return r


def realize(heap, root=1):
  """Canonical abstract heap -> (real root object, {id: real object})."""
  rz = Realizer(heap)
  r = rz.obj(root)
  for i in range(1, len(heap) + 1):
    rz.obj(i)
  return r, rz.objs


class Projector:
  """Real object graph -> canonical abstract heap (identity based)."""

  def __init__(self, intern_leaf_tuples=False, sort_dicts=False, callable_leaves=False):
    self.sort_dicts = sort_dicts
    self.callable_leaves = callable_leaves
    self.ids = {}
    self.keep = []
    self.heap = []
    self.intern_leaf_tuples = intern_leaf_tuples

  def val(self, x):
    if isinstance(x, bool) or x is None:
      return ['?', repr(x)]
    if isinstance(x, int):
      return LEAF_BACK.get(x, x) if LEAF_BACK else x
    if self.callable_leaves:
      import functools as _ft  # pylint: disable=g-import-not-at-top
      if isinstance(x, _ft.partial) and not x.args and fn_id_of(x.func) != -1 and all(
          isinstance(v, int) and not isinstance(v, bool) and v == 1000 + _slot_of(n)
          for n, v in x.keywords.items() if isinstance(_slot_of(n), int)) and all(
              isinstance(_slot_of(n), int) for n in x.keywords):
        return 2000 + fn_id_of(x.func)      # nothing bound beyond the callable's own defaults
      if callable(x) and not isinstance(x, (config_lib.Buildable, _ft.partial)) and fn_id_of(x) != -1:
        return 2000 + fn_id_of(x)
    if isinstance(x, str):
      if x in LEAF_BACK:
        return LEAF_BACK[x]
      return ['s', x]
    key = id(x)
    if key in self.ids:
      return -self.ids[key]
    idx = len(self.heap) + 1
    self.ids[key] = idx
    self.keep.append(x)
    node = {'k': '?', 'fn': 0, 'items': []}
    self.heap.append(node)
    inst = pool.inst_of(x) if not isinstance(x, (list, tuple, dict, config_lib.Buildable)) else None
    if isinstance(x, config_lib.Buildable):
      node['k'] = ('partial' if isinstance(x, fdl.Partial) else
                   'argfactory' if isinstance(x, fdl.ArgFactory) else
                   'tagged' if isinstance(x, config_lib.TaggedValueCls) else 'config')
      node['fn'] = 0 if node['k'] == 'tagged' else fn_code(x.__fn_or_cls__)
      args = dict(fdl.ordered_arguments(x))
      for n, ts in x.__argument_tags__.items():
        if ts and n not in args:
          args[n] = None           # tagged, no value
      def order(n):
        sl = _slot_of(n)
        return (0, sl) if isinstance(sl, int) else (1, str(n))
      is_tv = node['k'] == 'tagged'
      for name in sorted(args, key=order):
        v = args[name]
        node['items'].append({'key': 1 if (is_tv and name == 'value') else _slot_of(name),
                              'val': 0 if v is None else self.val(v),
                              'tg': tag_mask(x.__argument_tags__.get(name, ()))})
    elif self.callable_leaves and type(x).__name__ == 'partial' and hasattr(x, 'func'):
      node['k'] = 'partial'
      node['fn'] = fn_id_of(x.func)
      for j, v in enumerate(x.args):
        node['items'].append({'key': 100 + j, 'val': self.val(v), 'tg': 0})
      for name in sorted(x.keywords, key=lambda n: str(_slot_of(n))):
        v = x.keywords[name]
        if isinstance(v, int) and not isinstance(v, bool) and 1000 <= v < 2000:
          continue
        node['items'].append({'key': _slot_of(name), 'val': self.val(v), 'tg': 0})
    elif inst is not None:
      node['k'] = 'inst'
      node['fn'] = inst.fn_id if isinstance(inst.fn_id, int) else -1
      for name in ('s1', 's2', 's3'):
        if name in inst.args:
          v = inst.args[name]
          if isinstance(v, int) and not isinstance(v, bool) and v >= 1000:
            continue     # the callable's own default applied: parameter was not passed
          node['items'].append({'key': _slot_of(name), 'val': self.val(v), 'tg': 0})
    elif isinstance(x, list):
      node['k'] = 'list'
      for j, v in enumerate(x):
        node['items'].append({'key': j, 'val': self.val(v), 'tg': 0})
    elif isinstance(x, tuple):
      node['k'] = 'ntuple' if hasattr(x, '_fields') else 'tuple'
      for j, v in enumerate(x):
        node['items'].append({'key': j, 'val': self.val(v), 'tg': 0})
    elif isinstance(x, set):
      node['k'] = 'mleaf'
    elif isinstance(x, dict):
      node['k'] = 'dict'
      its = list(x.items())
      if self.sort_dicts:
        its.sort(key=lambda kv: (type(kv[0]).__name__, repr(kv[0])))
      for kk, v in its:
        node['items'].append({'key': _key_of(kk), 'val': self.val(v), 'tg': 0})
    else:
      node['k'] = 'foreign:' + type(x).__name__
    return -idx


_NAME_IDS = {}


def _slot_of(name):
  """Argument key -> abstract slot: s<k> -> k, positional index i -> 100 + i, other names -> 200+."""
  if isinstance(name, str) and name[:1] == 's' and name[1:].isdigit():
    return int(name[1:])
  if isinstance(name, int) and not isinstance(name, bool):
    return 100 + name
  if isinstance(name, str):
    return _NAME_IDS.setdefault(name, 200 + len(_NAME_IDS))
  return ['name', repr(name)]


def _key_of(k):
  if k == 3 and isinstance(k, int) and not isinstance(k, bool):
    return 3
  if isinstance(k, str) and k[:1] == 'k' and k[1:].isdigit():
    return int(k[1:])
  return ['key', repr(k)]


def project(root):
  """Returns (canonical heap, root value)."""
  p = Projector()
  r = p.val(root)
  return p.heap, r


def has_shared_internable(heap):
  """True iff a tuple that fiddle may intern (all items leaves or, recursively, such tuples --
  daglish.is_internable) or a leaf-only named tuple is referenced more than once: its sharing is neither
  observable (constant folding) nor significant."""
  memo = {}

  def internable(i):
    if i not in memo:
      o = heap[i - 1]
      memo[i] = o['k'] == 'tuple' and all(
          (not isinstance(it['val'], int)) or it['val'] >= 0 or internable(-it['val']) for it in o['items'])
    return memo[i]

  refc = {}
  for o in heap:
    for it in o['items']:
      if isinstance(it['val'], int) and it['val'] < 0:
        refc[-it['val']] = refc.get(-it['val'], 0) + 1
  for i, o in enumerate(heap, 1):
    leaf_only_nt = o['k'] == 'ntuple' and all(not (isinstance(it['val'], int) and it['val'] < 0) for it in o['items'])
    if refc.get(i, 0) > 1 and (internable(i) or leaf_only_nt):
      return True
  return False


def canon_values(heap, root=1):
  """Canonical form in which internable tuples (daglish.is_internable: all items leaves or such tuples) have
  no identity: every occurrence is its own node.  Source text cannot express their sharing (constant
  folding decides), and fiddle gives it no meaning."""
  memo = {}

  def internable(i):
    if i not in memo:
      o = heap[i - 1]
      memo[i] = o['k'] == 'tuple' and all(
          (not isinstance(it['val'], int)) or it['val'] >= 0 or internable(-it['val']) for it in o['items'])
    return memo[i]

  out, ids = [], {}

  def visit(i):
    if not internable(i) and i in ids:
      return -ids[i]
    idx = len(out) + 1
    if not internable(i):
      ids[i] = idx
    o = heap[i - 1]
    node = {'k': o['k'], 'fn': o['fn'], 'items': []}
    out.append(node)
    for it in o['items']:
      v = it['val']
      node['items'].append({'key': it['key'], 'val': visit(-v) if isinstance(v, int) and v < 0 else v,
                            'tg': it.get('tg', 0)})
    return -idx

  try:
    if heap:
      visit(root)
  except (IndexError, KeyError, TypeError):
    return heap         # not a well-formed heap (e.g. a deliberately corrupted record): left as it is
  return out


def canon_sorted(heap, root=1):
  """Canonical form of an abstract heap modulo dict insertion order (dict items sorted by key id)."""
  out, ids = [], {}

  def keyorder(it):
    k = it['key']
    return (0, k, '') if isinstance(k, int) else (1, 0, json.dumps(k))

  def visit(i):
    if i in ids:
      return -ids[i]
    idx = len(out) + 1
    ids[i] = idx
    o = heap[i - 1]
    node = {'k': o['k'], 'fn': o['fn'], 'items': []}
    out.append(node)
    items = sorted(o['items'], key=keyorder) if o['k'] == 'dict' else o['items']
    for it in items:
      v = it['val']
      node['items'].append({'key': it['key'], 'val': visit(-v) if isinstance(v, int) and v < 0 else v,
                            'tg': it.get('tg', 0)})
    return -idx

  if heap:
    visit(root)
  return out


def project_sorted(root):
  """project() modulo dict insertion order."""
  h, r = project(root)
  return (canon_sorted(h) if isinstance(r, int) and r < 0 else h), r


def strip_tags(heap):
  return heap
