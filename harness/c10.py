"""C10 — applying build_diff(old, new) to old yields new.

MC  : spec/MC_C10 — pairs (old, new) with new = deep copy of old changed by up to
      MaxEdits generic edits; CopyIsEquiv, OldUntouched.
S->C: every pair: build_diff, apply_diff on a deep copy of old; the result must
      project to new (callables, arguments, tags, sharing), in place (root keeps
      its identity), with new and the diff unmodified; an unchanged pair must give
      an empty diff.  Plus unrelated pairs (random heaps with the same root type)
      and pairs that share objects by identity.
"""
from __future__ import annotations

import copy
import json
import os
import random

import fiddle as fdl
from fiddle._src import diffing

from harness import common
from harness import heap as H
from harness import c02

PROP = 'C10'


def diff_fingerprint(d):
  return (str(d.changes), str(d.new_shared_values))


def check_pair_objs(old, new, expect_new, same, base):
  """Core clause on real objects.  Returns mismatches."""
  def feat(clause, **kw):
    return dict(base, clause=clause, **kw)
  mism = []
  new_before, _ = H.project(new)
  try:
    d = diffing.build_diff(old, new)
  except Exception as e:  # pylint: disable=broad-except
    return [(feat('build_diff-raises', observed=type(e).__name__), f'{type(e).__name__}: {str(e)[:200]}')]
  fp = diff_fingerprint(d)
  tgt = copy.deepcopy(old)
  keep_id = id(tgt)
  try:
    r = diffing.apply_diff(d, tgt)
  except Exception as e:  # pylint: disable=broad-except
    return [(feat('apply_diff-raises', observed=type(e).__name__), f'{type(e).__name__}: {str(e)[:200]}')]
  # (dict insertion order is no part of a configuration's value: compare modulo it)
  got = H.project_sorted(tgt)[0]
  if got != H.canon_sorted(expect_new):
    mism.append((feat('result-differs'), f'result {json.dumps(got)} expected {json.dumps(expect_new)}'))
  elif type_signature(tgt) != type_signature(new):
    mism.append((feat('node-types-differ'), f'types {type_signature(tgt)} expected {type_signature(new)}'))
  if r is not None and r is not tgt or id(tgt) != keep_id:
    mism.append((feat('not-in-place'), 'apply_diff did not mutate the structure in place'))
  if H.project(new)[0] != new_before:
    mism.append((feat('new-modified'), 'build_diff / apply_diff changed `new`'))
  if diff_fingerprint(d) != fp:
    mism.append((feat('diff-modified'), 'apply_diff changed the diff'))
  if same and (d.changes or d.new_shared_values):
    mism.append((feat('diff-of-copy-not-empty'), f'{d}'[:300]))
  # result must not share mutable objects with new (it was applied to a copy of old)
  return mism


def check_pair(rec):
  old, _ = H.realize(rec['old'])
  new, _ = H.realize(rec['new'])
  base = {'rw': rec['rw'], 'nedits': rec['nedits']}
  return check_pair_objs(old, new, rec['new'], rec['same'], base)


def work(lines):
  stats = {'lines': 0, 'nontrivial': 0}
  mismatches = []
  sample = None
  for line in lines:
    rec = common.decode_line(line)
    stats['lines'] += 1
    for f, msg in check_pair(rec):
      mismatches.append((f, {'old': rec['old'], 'new': rec['new'], 'message': msg[:600]}))
    if not rec['same']:
      stats['nontrivial'] += 1
    if sample is None and rec['rw'] == 'redirect':
      sample = {k: rec[k] for k in ('old', 'new', 'rw')}
  return stats, mismatches, sample


def extra_pairs(rng, n):
  """Unrelated pairs, and pairs sharing objects by identity."""
  out = []
  count = 0
  for _ in range(n):
    a = c02.random_heap(rng, rng.randint(2, 6), kinds=('config', 'config', 'list', 'dict', 'tuple'))
    b = c02.random_heap(rng, rng.randint(2, 6), kinds=('config', 'config', 'list', 'dict', 'tuple'))
    if a[0]['k'] != 'config' or b[0]['k'] != 'config':
      continue
    for o in a + b:
      if o['k'] == 'config':
        for it in o['items']:
          if rng.random() < 0.2:
            it['tg'] = rng.choice([1, 4, 5])
    old, _ = H.realize(a)
    new, _ = H.realize(b)
    exp, _ = H.project(new)
    count += 1
    out += check_pair_objs(old, new, exp, False, {'rw': 'unrelated', 'nedits': 0})
    # identity sharing: new is a shallow variation of old (children are the very same objects)
    new2 = fdl.copy_with(old, s3=rng.randint(1, 3))
    if rng.random() < 0.5 and isinstance(getattr(old, 's1', None), (list, fdl.Buildable)):
      new2.s2 = old.s1
    exp2, _ = H.project(new2)
    count += 1
    out += check_pair_objs(old, new2, exp2, False, {'rw': 'identity-sharing', 'nedits': 0})
  return out, count


def other_fn(x=0, y=0, s1=0):
  return (x, y, s1)


def handmade_pairs(rng, n):
  """(old, new, label) triples outside the heap machine's vocabulary."""
  from fiddle._src import tagging
  out = []
  for _ in range(n):
    a = fdl.Config(H.g4, s1=rng.randint(1, 3))
    old = fdl.Config(H.f1, s1=fdl.Config(H.ClsA, s1=a, s2=2), s2=[a, (1, (2, 3))], s3=((4, 5), [6]))
    tagging.add_tag(old.s1, 's2', H.T0)
    new = copy.deepcopy(old)
    ch = rng.randint(0, 5)
    if ch == 0:      # callable swapped for one with other parameter names, tags on exclusive parameters
      new.s1 = fdl.Config(other_fn, x=new.s1.s1, y=3)
      tagging.add_tag(new.s1, 'y', H.T1)
      old2 = copy.deepcopy(old)
      out.append((old, new, 'callable-swap-new-object'))
      # the same with the node kept (update_callable), so that it is aligned
      new2 = copy.deepcopy(old2)
      tagging.clear_tags(new2.s1, 's2')
      fdl.update_callable(new2.s1, other_fn, drop_invalid_args=True)
      new2.s1.x = 7
      tagging.add_tag(new2.s1, 'y', H.T1)
      out.append((old2, new2, 'callable-swap-with-tags'))
      continue
    if ch == 1:      # item of a tuple nested in a tuple changes
      new.s2 = [new.s2[0], (1, (2, 9))]
      new.s3 = ((4, 8), new.s3[1])
    elif ch == 2:    # old root reachable from new
      wrapper = fdl.Config(H.f1, s1=old, s2=1)
      out.append((old, wrapper, 'old-root-inside-new'))
      out.append((wrapper, old, 'new-root-inside-old'))
      out.append((old, old, 'same-object'))
      continue
    elif ch == 3:    # three levels of new shared values
      l1 = fdl.Config(H.g4, s2=new.s1.s1)
      l2 = [l1, l1]
      l3 = {'k1': l2, 'k2': l2}
      new.s2 = [l3, l3]
    elif ch == 4:    # subtree moved and alias created
      new.s3 = new.s1
      new.s1 = new.s1.s1
    else:            # tags only
      tagging.set_tags(new.s1, 's2', [H.T1, H.T2])
      tagging.add_tag(new, 's3', H.T0)
    out.append((old, new, f'handmade-{ch}'))
  return out + special_pairs()


class MyConfig(fdl.Config):
  """A user subclass of fdl.Config."""


def kw_fn(s1=0, **kw):
  return (s1, kw)


def xy_fn(x=0, x_y=0, y=0):
  return (x, x_y, y)


def type_signature(x):
  """Exact types of every Buildable and container, by path (the projection abstracts subclasses)."""
  from fiddle import daglish  # pylint: disable=g-import-not-at-top
  # (by path, sorted: dict insertion order is no part of a configuration's value)
  return sorted((daglish.path_str(p), type(v).__qualname__) for v, p in daglish.iterate(x, memoized=False)
                if isinstance(v, (fdl.Buildable, list, tuple, dict)))


def special_pairs():
  """Pairs aimed at clauses the random vocabulary does not reach (second-round seeded changes)."""
  from fiddle._src import tagging
  import fdlverif_helpers as top_helpers  # pylint: disable=g-import-not-at-top
  from harness.c13pkg import fdlverif_helpers as sub_helpers  # pylint: disable=g-import-not-at-top
  out = []
  nan = float('nan')
  # node types: tuple -> named tuple, Config -> Config subclass, Config -> TaggedValue holding it
  old = fdl.Config(H.f1, s1=[(1, 2), fdl.Config(H.g4, s1=1)], s2={'k1': fdl.Config(H.g4, s1=2)})
  new = copy.deepcopy(old)
  new.s1 = [H.NT2(1, 2), MyConfig(H.g4, s1=1)]
  new.s2 = {'k1': tagging.TaggedValue([H.T0], fdl.Config(H.g4, s1=2))}
  out.append((old, new, 'node-types'))
  out.append((new, copy.deepcopy(old), 'node-types-back'))
  # a leaf that is not equal to itself
  old = fdl.Config(H.f1, s1=nan, s2=[nan, 1], s3={'k1': nan})
  out.append((old, copy.deepcopy(old), 'nan-copy'))
  new = copy.deepcopy(old)
  new.s2 = [nan, 2]
  out.append((old, new, 'nan-edited'))
  # callable swapped for one that takes the kept arguments through **kwargs
  old = fdl.Config(H.f1, s1=fdl.Config(H.g4, s1=1, s2=2), s2=3)
  new = copy.deepcopy(old)
  fdl.update_callable(new.s1, kw_fn)
  out.append((old, new, 'callable-swap-to-kwargs'))
  # changes in parallel branches whose paths end alike (alias names), in moved subtrees too
  def branch(v):
    return fdl.Config(H.ClsA, s1=fdl.Config(H.g4, s1=fdl.Config(H.g4, s2=v)))
  old = fdl.Config(H.f1, s1=branch(1), s2=branch(2))
  new = copy.deepcopy(old)
  new.s1.s1.s1.s2 = 7
  new.s2.s1.s1.s2 = 8
  out.append((old, new, 'parallel-branches'))
  new2 = copy.deepcopy(new)
  new2.s3 = [new2.s1.s1, new2.s2.s1]
  new2.s1, new2.s2 = 4, 5
  out.append((old, new2, 'parallel-branches-moved'))
  old = fdl.Config(xy_fn, x=fdl.Config(xy_fn, y=fdl.Config(H.g4, s1=1)), x_y=fdl.Config(H.g4, s1=2))
  new = copy.deepcopy(old)
  new.x.y.s1 = 7
  new.x_y.s1 = 8
  new.y = [new.x.y, new.x_y]
  new.x.y = 0
  out.append((old, new, 'names-that-sanitise-alike'))
  # new values from a sub-module and from a top-level module with the same last name
  old = fdl.Config(H.f1, s1=1)
  new = copy.deepcopy(old)
  new.s2 = [fdl.Config(sub_helpers.make, s1=1), fdl.Config(top_helpers.make, s1=2)]
  out.append((old, new, 'import-names-collide'))
  new = copy.deepcopy(old)
  new.s2 = [fdl.Config(top_helpers.make, s1=2), fdl.Config(sub_helpers.make, s1=1)]
  out.append((old, new, 'import-names-collide-reversed'))
  # an object whose only changes are a deletion and a tag, inside a subtree that moves
  old = fdl.Config(H.f1, s1=fdl.Config(H.ClsA, s1=fdl.Config(H.g4, s1=1, s2=2), s2=3))
  new = copy.deepcopy(old)
  moved = new.s1
  new.s2 = [moved]
  new.s1 = 5
  del moved.s1.s2
  tagging.add_tag(moved.s1, 's1', H.T0)
  out.append((old, new, 'delete-and-tag-inside-moved-subtree'))
  old2 = copy.deepcopy(old)
  tagging.add_tag(old2.s1.s1, 's2', H.T1)
  new = copy.deepcopy(old2)
  moved = new.s1
  new.s3 = moved
  new.s1 = 6
  tagging.remove_tag(moved.s1, 's2', H.T1)
  out.append((old2, new, 'tag-removed-inside-moved-subtree'))
  return out


def posfn(a, b=2, /, c=3, *rest, k=0):
  return (a, b, c, rest, k)


def positional_scenario():
  old = fdl.Config(posfn, 1, 2, 3, 4)
  new = fdl.Config(posfn, 1, 5, 3, 4, 6, k=1)
  p = H.Projector()
  p.val(new)
  return check_pair_objs(old, new, p.heap, False, {'rw': 'positional-args', 'nedits': 0})


def run_pairs(v, workfn, wd, quick, extra_consts=None):
  base = dict(NLeaves=1, NFns=1, EmitOn=True, AliasFix=True)
  runs = [dict(base, MaxObjs=3, MaxItems=2, NKeys=1, NSlots=2, KindSet={'config', 'list', 'dict'},
               TagChoices={0}, UnsetTagged=False, MaxEdits=1),
          dict(base, MaxObjs=2, MaxItems=2, NKeys=1, NSlots=2, KindSet={'config', 'list', 'tuple'},
               TagChoices={0, 1}, UnsetTagged=True, MaxEdits=2)]
  if not quick:
    # (sized with TLC alone: 0.8 M + 0.7 M pairs; MaxObjs=3 with five kinds and two edits is 20 M)
    runs = [dict(base, MaxObjs=3, MaxItems=2, NKeys=1, NSlots=2, KindSet={'config', 'list', 'dict', 'tuple'},
                 TagChoices={0, 1}, UnsetTagged=True, MaxEdits=1),
            dict(base, MaxObjs=2, MaxItems=2, NKeys=2, NSlots=2,
                 KindSet={'config', 'partial', 'list', 'dict', 'tuple'},
                 TagChoices={0, 1}, UnsetTagged=True, MaxEdits=2)]
  totals = {'lines': 0, 'nontrivial': 0}
  res = None
  for n, c in enumerate(runs):
    disp = common.Dispatcher(workfn, chunk=300)
    r = common.run_tlc('MC_C10', common.cfg_text(c, constraints=['Prune'], invariants=['CopyIsEquiv', 'Emit'],
                                                 properties=['OldUntouched']),
                       workdir=os.path.join(wd, f'mc{n}'), on_json=disp)
    common.require_tlc_ok(r, 'MC_C10')
    for stats, mism, sample in disp.results():
      for k in totals:
        totals[k] += stats[k]
      for f, case in mism:
        v.mismatch(f, case)
      if sample:
        v.sample(sample)
    if res is None:
      res = r
    else:
      res.distinct += r.distinct
      res.generated += r.generated
      res.lines += r.lines
  return totals, res


def main():
  v = common.Verdict(PROP, 'model_checking')
  quick = common.tier() == 'quick'
  with common.scratch() as wd:
    totals, res = run_pairs(v, work, wd, quick)
    rng = random.Random(common.seed() * 236887691 + 13)
    ex, nex = extra_pairs(rng, 200 if quick else 2000)
    hm = []
    for old, new, label in handmade_pairs(rng, 40 if quick else 400):
      hm += check_pair_objs(old, new, H.project(new)[0], old is new or label.endswith('-copy'),
                            {'rw': label, 'nedits': 0})
      nex += 1
    for f, msg in ex + positional_scenario() + hm:
      v.mismatch(f, {'message': msg})
  v.coverage.update({
      'states': res.distinct, 'transitions': res.generated,
      'traces_validated_against_impl': totals['lines'] + nex,
      'evaluations': totals['lines'] + nex, 'distinct_nontrivial': totals['nontrivial'],
      'rule': 'one case per TLC state in phase "pair" (old, new = deep copy + up to 2 generic edits); '
              'non-trivial = new differs from old; plus random unrelated pairs and identity-sharing pairs',
      'extra_pairs': nex, 'model': res.as_dict(), 'exhaustive': True,
  })
  v.assumptions += ['roots are Buildables of the same type (the edit vocabulary never changes the root\'s type)']
  return v.finish()


if __name__ == '__main__':
  common.main_wrapper(main)
