"""Hand-written auto_config functions with constructs outside FdlAutoConfig's instruction set.

Judged real-against-real by harness/c11.py: fdl.build(fn.as_buildable(*a)) must project to the same
graph as fn(*a) and as the undecorated function, and as_buildable must invoke only what is listed.
"""
import dataclasses
import functools

import fiddle as fdl
from fiddle import arg_factory
from fiddle.experimental import auto_config

from harness import heap as M
from harness.heap import f1, ClsA, ClsB, g4, T0, T1, T2
from harness.c11lib import ac1, ac2

SCENARIOS = []   # (name, function, args, kwargs, invoked fn ids)


def scenario(*args, invoked=(), **kwargs):
  def deco(fn):
    SCENARIOS.append((fn.__name__, fn, args, kwargs, list(invoked)))
    return fn
  return deco


def _closure_maker(cls, leaf):
  shared_default = 7

  @auto_config.auto_config
  def closure_cells(a1, a2=shared_default):
    x = cls(s1=leaf, s2=a1)
    return f1(s1=x, s2=x, s3=a2)
  return closure_cells


scenario(11)(_closure_maker(ClsB, 5))


def _rebinding_maker():
  width = 4
  holder = [ClsA]

  @auto_config.auto_config
  def rebound_closure(a1=1):
    return holder[0](s1=width, s2=a1)
  width = 16            # the enclosing scope re-binds the free variable after decoration
  holder[0] = ClsB      # and mutates a captured object
  return rebound_closure


scenario()(_rebinding_maker())


@scenario()
@auto_config.auto_config
def tuple_unpacking():
  a, b = g4(s1=1), ClsA()
  c = d = g4(s2=a)
  return f1(s1=[a, b], s2=(c, d), s3={'k1': b})


@scenario(3, s3=4)
@auto_config.auto_config
def nested_auto_config_calls(a1, *, s3=9):
  inner = ac1(a1)
  outer = ac2(s1=inner)
  return ClsB(s1=ac1(s1=outer), s2=inner, s3=s3)


@scenario()
@auto_config.auto_config
def splat_from_locals():
  kw = {'s2': g4(), 's3': 3}
  pos = [ClsA(s1=1)]
  return f1(*pos, **kw)


@scenario(1, 2, s3=3)
@auto_config.auto_config
def var_signature(*args, **kwargs):
  return ClsA(*args, **kwargs)


@scenario(5)
@auto_config.auto_config
def positional_only(a1, /, a2=6, *, a3=7):
  return g4(a1, a2, s3=ClsA(a3))


@scenario()
@auto_config.auto_config
def builtin_method_calls():
  lst = []
  lst.append(f1(s1=1))
  lst.append(lst[0])
  d = dict(k1=lst[0])
  d.update(k2=g4())
  return ClsA(s1=lst, s2=d, s3=len(lst))


@scenario()
@auto_config.auto_config
def shared_partial():
  p = functools.partial(g4, s1=ClsA())
  return f1(s1=p, s2=p, s3=functools.partial(p, s2=2))


@scenario()
@auto_config.auto_config
def factories_of_factories():
  inner = functools.partial(ClsA, s1=1)
  return arg_factory.partial(f1, s1=inner, s2=arg_factory.partial(g4, s1=ClsB), s3=g4)


@scenario()
@auto_config.auto_config
def tags_everywhere():
  x = auto_config.with_tags(g4(s1=auto_config.with_tags(1, [T0, T2])), T1)
  return ClsA(s1=x, s2=[auto_config.with_tags(2, T0)], s3=auto_config.with_tags(auto_config.with_tags(3, T0), [T2]))


@scenario(invoked=[4, 2])
@auto_config.auto_config
def exempted_calls():
  a = auto_config.exempt(g4)(s1=1)
  b = auto_config.exempt(ClsA)(2)
  return f1(s1=len([a, b]), s2=g4(s1=5), s3=3)


@auto_config.auto_unconfig
def unconfigured(s1):
  cfg = fdl.Config(ClsA, s1=s1)
  cfg.s2 = fdl.Config(g4, s1=cfg.s1)
  return cfg


@scenario()
@auto_config.auto_config
def uses_auto_unconfig():
  return f1(s1=unconfigured(4), s2=unconfigured(s1=g4()))


@scenario(2)
@auto_config.auto_config(experimental_allow_control_flow=True)
def loops_and_conditions(n):
  layers = []
  shared = g4(s1=0)
  for i in range(n):
    if i % 2:
      layers.append(ClsA(s1=i, s2=shared))
    else:
      layers.append(ClsB(s1=i))
  table = {f'k{i + 1}': f1(s1=i) for i in range(n)}
  grid = [[g4(s1=i, s2=j) for j in range(2)] for i in range(n)]
  return f1(s1=layers, s2=table if n else None, s3=grid)


@dataclasses.dataclass
class Point:
  s1: int = 1
  s2: int = 2


@scenario()
@auto_config.auto_config(experimental_allow_dataclass_attribute_access=True)
def dataclass_attributes():
  p = Point(s1=5)
  p.s2 = 8
  return [p, Point(s1=p.s1, s2=p.s2)]


class Holder:
  factory = ClsB

  @auto_config.auto_config
  @classmethod
  def make(cls, a1):
    return cls.factory(s1=a1, s2=M.g4(s1=a1))

  @auto_config.auto_config
  @staticmethod
  def make_static(a1=3):
    return M.ClsA(s1=Holder.factory(s2=a1))


SCENARIOS.append(('classmethod_cls_attribute', Holder.make, (4,), {}, []))
SCENARIOS.append(('staticmethod_defaults', Holder.make_static, (), {}, []))
SCENARIOS.append(('lambda_with_closure', (lambda k: auto_config.auto_config(
    lambda a1=2: k(s1=[g4(s1=a1), g4(s1=a1)])))(ClsA), (), {}, []))


import logging as _logging

_LOG = _logging.getLogger('c11scen')


class LayerMaker:
  """A class with a classmethod constructor; every instantiation is recorded (pool.CALL_LOG)."""

  def __init__(self, size=0):
    from harness import pool  # pylint: disable=g-import-not-at-top
    self.size = size
    self.inst = pool.Inst(77, {'s1': size})

  @classmethod
  def of_size(cls, size):
    return cls(size=size)

  def __eq__(self, other):
    return type(other) is LayerMaker and other.size == self.size


@scenario()
@auto_config.auto_config
def temporaries_after_exempt_calls():
  # bound methods are temporaries: an exempted one (logger method) is followed by configurable ones
  _LOG.debug('building')
  a = LayerMaker.of_size(3)
  _LOG.debug('again')
  b = LayerMaker.of_size(4)
  return ClsA(s1=a, s2=[b, LayerMaker.of_size(5)])


def var_layers(*layers, k=0):
  return ('layers', layers, k)


def pos_only(a, b=2, /):
  return ('pos', a, b)


@scenario()
@auto_config.auto_config
def factories_bound_positionally():
  return arg_factory.partial(ClsA, s1=functools.partial(var_layers, 8, 16, 32),
                             s2=functools.partial(pos_only, 7), s3=functools.partial(var_layers, 1, k=2))


@scenario()
@auto_config.auto_config
def tagged_none_and_falsy_values():
  return ClsA(s1=auto_config.with_tags(None, T0), s2=[auto_config.with_tags(0, T1), auto_config.with_tags('', [T2])],
              s3=g4(s1=auto_config.with_tags(False, T0), s2=auto_config.with_tags(None, [T0, T2])))


@scenario()
@auto_config.auto_config(experimental_always_inline=False)
def not_inlined_root():
  return ClsA(s1=ac2(s1=1), s2=ac2(2))
