"""C16 — argument history is a faithful, ordered log of edits.

MC  : spec/MC_C16 — FdlStore with the reference history implementation
      (one entry per changed key): DeltaOK holds for it in every transition,
      entries under suspension are impossible, the last entry per key reflects
      the store (LastEntryIsCurrent) -- the clauses are consistent.
C->S: several real Buildables are edited in an interleaved fashion (index, slice
      and attribute edits, tag edits, assign, materialize_defaults,
      update_callable, nested suspend_tracking); every event carries the
      entries it appended, their sequence ids and attribution and the last
      entries per key; spec/Trace_C16 judges each event (FdlStore step +
      FdlHist clauses) and the global uniqueness of sequence ids.
(The thread clause of the statement is decided by the C19 scheduler.)
"""
from __future__ import annotations

import json
import os
import random

import fiddle as fdl
from fiddle._src import history
from fiddle._src import tagging
from fiddle._src import materialize
from fiddle._src import mutate_buildable
from fiddle._src import copying

from harness import common
from harness import heap as H
from harness import pool
from harness import store
from harness import c03

PROP = 'C16'
TAGBIT = {1: H.T0, 2: H.T1, 4: H.T2}


def keycode(k):
  if isinstance(k, int) and not isinstance(k, bool):
    return k
  if k == '__fn_or_cls__':
    return 999
  try:
    return 200 + pool.pid(k)
  except Exception:  # pylint: disable=broad-except
    return 998


def entry_rec(e):
  if e.kind == history.ChangeKind.UPDATE_TAGS:
    return {'key': keycode(e.param_name), 'kind': 't', 'val': H.tag_mask(e.new_value)}
  if e.new_value is history.DELETED:
    return {'key': keycode(e.param_name), 'kind': 'd', 'val': 0}
  v = pool.proj_val(e.new_value)
  return {'key': keycode(e.param_name), 'kind': 'v', 'val': v if isinstance(v, int) else -7}


class Tracked:
  """One real Buildable with its trace."""

  def __init__(self, tid, rng, maxparams):
    self.sig = c03.random_sig(rng, maxparams)
    self.form = rng.choice(('function', 'class'))
    self.fn = pool.get_fn(self.sig, self.form)
    self.cfg = fdl.Config(self.fn)
    self.lens = {k: len(v) for k, v in self.cfg.__argument_history__.items()}
    self.trace = {'tid': tid, 'sig': self.sig, 'init': store.project(self.cfg, self.sig), 'events': []}
    self.cur = self.trace['init']

  def new_entries(self):
    out = []
    for k, lst in self.cfg.__argument_history__.items():
      n = self.lens.get(k, 0)
      out += lst[n:]
      self.lens[k] = len(lst)
    out.sort(key=lambda e: e.sequence_id)
    return out

  def last_entries(self):
    last, lasttag = [], []
    for k, lst in self.cfg.__argument_history__.items():
      vals = [e for e in lst if e.kind == history.ChangeKind.NEW_VALUE]
      tgs = [e for e in lst if e.kind == history.ChangeKind.UPDATE_TAGS]
      if vals and k != '__fn_or_cls__':
        last.append(entry_rec(vals[-1]))
      if tgs:
        lasttag.append([keycode(k), H.tag_mask(tgs[-1].new_value)])
    return last, lasttag

  def log(self, op, out):
    post = store.project(self.cfg, self.sig)
    stray = post.pop('stray', None)
    ents = self.new_entries()
    last, lasttag = self.last_entries()
    self.trace['events'].append({
        'op': op, 'out': out, 'post': post, 'stray': 1 if stray else 0,
        'delta': [entry_rec(e) for e in ents], 'seqs': [e.sequence_id for e in ents],
        'internal': [1 if ('fiddle' + os.sep + '_src') in e.location.filename else 0 for e in ents],
        'last': last, 'lasttag': lasttag})
    self.cur = post
    return not stray


def tag_target(rng, t):
  """A (keycode, real argument) pair for a tag operation."""
  sig = t.sig
  n = store.npos(sig)
  cands = []
  for i, p in enumerate(sig):
    if p['k'] in ('PK', 'KO'):
      cands.append((200 + i + 1, pool.pname(i + 1)))
    elif p['k'] == 'PO':
      cands.append((i, i))
  if store.has(sig, 'VP'):
    for j in range(len(t.cur['va']) + 1):
      cands.append((n + j, n + j))
  return rng.choice(cands) if cands else None


def drive(rng, ntraces, nevents, maxparams):
  ts = [Tracked(i + 1, rng, maxparams) for i in range(ntraces)]
  stack = []
  alive = set(range(ntraces))
  ZERO = {'name': '', 'a': 0, 'b': 0, 'c': 0, 'vals': []}
  for _ in range(nevents):
    if not alive:
      break
    r = rng.random()
    if r < 0.06 and len(stack) < 3:
      cm = history.suspend_tracking()
      cm.__enter__()
      stack.append(cm)
      for i in alive:
        ts[i].log(dict(ZERO, name='suspend_enter'), 'ok')
      continue
    if r < 0.13 and stack:
      stack.pop().__exit__(None, None, None)
      for i in alive:
        ts[i].log(dict(ZERO, name='suspend_exit'), 'ok')
      continue
    i = rng.choice(sorted(alive))
    t = ts[i]
    if r < 0.28:
      tt = tag_target(rng, t)
      if tt is None:
        continue
      code, arg = tt
      name = rng.choice(['addtag', 'addtag', 'removetag', 'settags', 'cleartags'])
      bit = rng.choice([1, 2, 4]) if name != 'settags' else rng.choice([1, 2, 4, 3, 6, 0])
      try:
        if name == 'addtag':
          tagging.add_tag(t.cfg, arg, TAGBIT[bit])
        elif name == 'removetag':
          tagging.remove_tag(t.cfg, arg, TAGBIT[bit])
        elif name == 'settags':
          tagging.set_tags(t.cfg, arg, H.tags_of(bit))
        else:
          tagging.clear_tags(t.cfg, arg)
        out = 'ok'
      except ValueError:
        out = 'raise'
      ok = t.log(dict(ZERO, name=name, a=code, b=bit), out)
    elif r < 0.31:
      names = [j + 1 for j, p in enumerate(t.sig) if p['k'] in ('PK', 'KO')]
      if not names:
        continue
      nme, bit, val = rng.choice(names), rng.choice([1, 2, 4, 3, 5]), rng.randint(1, 9)
      setattr(t.cfg, pool.pname(nme), tagging.TaggedValue(tags=H.tags_of(bit), default=pool.LEAVES[val]))
      ok = t.log(dict(ZERO, name='assigntv', a=nme, b=bit, vals=[val]), 'ok')
    elif r < 0.34:
      names = [j + 1 for j, p in enumerate(t.sig) if p['k'] in ('PK', 'KO')]
      if not names:
        continue
      ch = rng.sample(names, rng.randint(1, min(2, len(names))))
      kv = []
      for nme in ch:
        kv += [nme, rng.randint(1, 9)]
      mutate_buildable.assign(t.cfg, **{pool.pname(kv[j]): pool.LEAVES[kv[j + 1]]
                                        for j in range(0, len(kv), 2)})
      ok = t.log(dict(ZERO, name='assign', vals=kv), 'ok')
    elif r < 0.38:
      materialize.materialize_defaults(t.cfg)
      ok = t.log(dict(ZERO, name='materialize'), 'ok')
    elif r < 0.41 and t.form == 'function' and not any(
        isinstance(k, int) for k in t.cfg.__arguments__):
      # (update_callable documents that it does not support positional arguments)
      other = pool.get_fn(t.sig, 'function2' if t.cfg.__fn_or_cls__ is t.fn else 'function')
      mutate_buildable.update_callable(t.cfg, other)
      ok = t.log(dict(ZERO, name='update_callable'), 'ok')
    else:
      op = c03.random_op(rng, t.sig, t.cur)
      out, _, _ = store.do_op(t.cfg, t.sig, op)
      ok = t.log(op, out)
    if not ok:
      alive.discard(i)
  while stack:
    stack.pop().__exit__(None, None, None)
  return [t.trace for t in ts]


def validate(v, traces, wd, tag='all'):
  os.makedirs(wd, exist_ok=True)
  path = os.path.join(wd, f'c16-{tag}.json')
  with open(path, 'w') as f:
    json.dump(traces, f)
  verdicts = {}
  def on_json(line):
    r = common.decode_line(line)
    verdicts[r['tid']] = r
  cfg = common.cfg_text({}, init='TInit', next_='TNext', constraints=['TProgress'],
                        postcondition='TReport')
  res = common.run_tlc('Trace_C16', cfg, workdir=os.path.join(wd, 'tr-' + tag), on_json=on_json,
                       workers=1, env={'TRACE_FILE': path})
  common.require_tlc_ok(res, 'Trace_C16')
  if len(verdicts) != len(traces) + 1:
    raise common.MachineryError(f'Trace_C16 reported {len(verdicts)} of {len(traces) + 1} lines')
  acc, events = 0, 0
  g = verdicts[0]
  g['total'] = sum(len(e['seqs']) for t in traces for e in t['events'])
  if g['matched'] != g['total']:
    v.mismatch({'clause': 'sequence-ids-not-globally-unique'},
               {'message': f'{g["total"]} entries carry only {g["matched"]} distinct sequence ids'})
  for t in traces:
    r = verdicts[t['tid']]
    events += r['matched']
    if r['matched'] == len(t['events']) and not r['why']:
      acc += 1
      continue
    ev = t['events'][r['matched']]
    v.mismatch({'clause': r['why'] or 'rejected', 'op': ev['op']['name'], 'out': ev['out']},
               {'sig': pool.sig_key(t['sig']),
                'program': [e['op'] for e in t['events'][:r['matched'] + 1]][-6:],
                'message': f'event {r["matched"] + 1} ({ev["op"]}) rejected by clause {r["why"]}: '
                           f'delta={ev["delta"]} seqs={ev["seqs"]} internal={ev["internal"]} '
                           f'post={ev["post"]} last={ev["last"]}'})
  return acc, events


def attribution_scenario(wd):
  """Direct edits made from user files are attributed to those files, whatever they are called."""
  import importlib.util  # pylint: disable=g-import-not-at-top
  out = []
  body = (
      'import fiddle as fdl\n'
      'from fiddle._src import tagging\n'
      'def edit(cfg, leaf):\n'
      '  cfg.p1 = leaf\n'
      '  del cfg.p1\n'
      '  cfg.p1 = leaf\n'
      '  return cfg\n')
  fn = pool.get_fn([{'k': 'PK', 'd': True}], 'function')
  for name in ('experiment_config.py', 'train_history.py', 'my_copying.py', 'model_tagging.py', 'daglish.py',
               'mutate_buildable.py', 'plain_user_file.py'):
    path = os.path.join(wd, 'attr_' + name.replace('.py', ''), name)
    os.makedirs(os.path.dirname(path), exist_ok=True)
    with open(path, 'w') as f:
      f.write(body)
    spec = importlib.util.spec_from_file_location('c16user_' + name.replace('.py', ''), path)
    mod = importlib.util.module_from_spec(spec)
    spec.loader.exec_module(mod)
    cfg = fdl.Config(fn)
    try:
      mod.edit(cfg, pool.LEAVES[1])
    except Exception as e:  # pylint: disable=broad-except
      out.append(({'clause': 'attribution-user-file', 'file': name, 'observed': 'raise:' + type(e).__name__},
                  f'editing from {name} raised {type(e).__name__}: {str(e)[:150]}'))
      continue
    locs = [e.location.filename for e in cfg.__argument_history__['p1']]
    if len(locs) != 3 or any(os.path.basename(l) != name for l in locs):
      out.append(({'clause': 'attribution-user-file', 'file': name, 'observed': 'wrong-location'},
                  f'edits made in {name} are attributed to {[os.path.basename(l) for l in locs]}'))
  return out


def copy_with_scenario():
  """copy_with: the original's history is untouched, the copy's ends with the new value."""
  out = []
  fn = pool.get_fn([{'k': 'PK', 'd': True}, {'k': 'KO', 'd': False}], 'function')
  import copy as _copy
  cfg = fdl.Config(fn, p1=pool.LEAVES[1], p2=pool.LEAVES[3])
  before = {k: list(v) for k, v in cfg.__argument_history__.items()}
  cp = copying.copy_with(cfg, p2=pool.LEAVES[2], p1=pool.LEAVES[4])
  cp2 = _copy.copy(cfg)
  cp2.p1 = pool.LEAVES[5]
  del cp2.p2
  after = {k: list(v) for k, v in cfg.__argument_history__.items() if v}
  if after != {k: v for k, v in before.items() if v}:
    out.append(({'clause': 'copy_with-touches-original-history'},
                'editing a copy appended entries to the original\'s history'))
  if cfg.__argument_history__['p1'][-1].new_value is not pool.LEAVES[1]:
    out.append(({'clause': 'original-last-entry-not-current'},
                'after editing a copy the original\'s history no longer ends with its current value'))
  h = cp.__argument_history__
  if not h['p2'] or h['p2'][-1].new_value is not pool.LEAVES[2] or \
      ('fiddle' + os.sep + '_src') in h['p2'][-1].location.filename:
    out.append(({'clause': 'copy_with-history'},
                f'copy history for p2: {[ (e.new_value, str(e.location)) for e in h["p2"]]}'))
  return out


def main():
  v = common.Verdict(PROP, 'model_checking')
  quick = common.tier() == 'quick'
  with common.scratch() as wd:
    consts = dict(MaxParams=3, MaxVa=2, MaxOps=2 if quick else 3)
    res = common.run_tlc('MC_C16', common.cfg_text(consts, view='AbsView', constraints=['Bound'],
                                                   invariants=['RefDeltaOK', 'LastEntryIsCurrent',
                                                               'SuspendAddsNothing']),
                         workdir=os.path.join(wd, 'mc'))
    common.require_tlc_ok(res, 'MC_C16')
    rng = random.Random(common.seed() * 160481183 + 9)
    traces = []
    rounds = 120 if quick else 600
    for rd in range(rounds):
      for t in drive(rng, 4, 60 if quick else 120, 6):
        t['tid'] = len(traces) + 1
        traces.append(t)
    # binding demo: drop one appended entry / swap two sequence ids -> must be rejected
    import copy as _c
    cand = next((t for t in traces for e in t['events'] if e['delta']), None)
    if cand:
      bad = _c.deepcopy(cand)
      bad['tid'] = 1
      for e in bad['events']:
        if e['delta']:
          e['delta'] = e['delta'][1:]
          e['seqs'] = e['seqs'][1:]
          e['internal'] = e['internal'][1:]
          break
      vneg = common.Verdict(PROP, 'model_checking')
      vneg.kf.entries = []
      a, _ = validate(vneg, [bad], os.path.join(wd, 'neg'), 'neg')
      if a != 0:
        raise common.MachineryError('Trace_C16 accepted a trace with a dropped history entry')
    accepted, events = validate(v, traces, os.path.join(wd, 'c2s'))
    for f, msg in copy_with_scenario() + attribution_scenario(wd):
      v.mismatch(f, {'message': msg})
  nontrivial = sum(1 for t in traces for e in t['events'] if e['delta'])
  v.coverage.update({
      'states': res.distinct, 'transitions': res.generated,
      'traces_validated_against_impl': len(traces), 'evaluations': events,
      'distinct_nontrivial': nontrivial,
      'rule': 'C->S: traces of four Buildables edited in an interleaved fashion (random signatures of up to 6 '
              'parameters; index/slice/attribute edits, tag edits, assign, materialize_defaults, '
              'update_callable, nested suspend_tracking); non-trivial events = events that appended at least '
              'one history entry',
      'c2s_traces': len(traces), 'c2s_accepted': accepted, 'events_matched': events,
      'model': res.as_dict(), 'exhaustive': False,
  })
  v.sample({'sig': pool.sig_key(traces[0]['sig']),
            'events': [{'op': e['op'], 'delta': e['delta'], 'seqs': e['seqs']} for e in traces[0]['events'][:3]]})
  v.assumptions += [
      'a key whose stored value is identical before and after an operation that addressed it may gain zero or '
      'one entry; LastEntryIsCurrent is required of keys whose latest change happened with tracking enabled',
      'the thread clause (sequence ids under concurrent edits) is decided by the C19 scheduler',
  ]
  return v.finish()


if __name__ == '__main__':
  common.main_wrapper(main)
