"""auto_config callees used by the C11 programs (spec/FdlAutoConfig.tla, CalleeBody)."""
from fiddle.experimental import auto_config

from harness.heap import ClsA, g4


@auto_config.auto_config
def ac1(s1):
  x = g4(s1=s1)
  return ClsA(s1=x, s2=x)


@auto_config.auto_config(experimental_always_inline=False)
def ac2(s1):
  x = g4(s1=s1)
  return ClsA(s1=x, s2=x)
