"""Shared plumbing: TLC runner, evidence writer, known findings, verdicts.

Run with /venv/bin/python (fiddle's own interpreter).  fiddle is imported from
/repo's working tree; nothing is built or cached.
"""
from __future__ import annotations

import contextlib
import hashlib
import multiprocessing as mp
import json
import os
import re
import shutil
import subprocess
import sys
import tempfile
import time

VERIF = os.path.dirname(os.path.dirname(os.path.abspath(__file__)))
SPEC = os.path.join(VERIF, 'spec')
EVID = os.environ.get('VERIF_EVIDENCE_DIR') or os.path.join(VERIF, 'evidence')
REPLAYS = os.path.join(EVID, 'replays')
REPO = os.environ.get('FIDDLE_REPO', '/repo')
NCPU = min(16, os.cpu_count() or 1)

if REPO not in sys.path:
  sys.path.insert(0, REPO)


class MachineryError(Exception):
  """Something in the verification machinery itself failed (exit 2)."""


def tier() -> str:
  t = os.environ.get('VERIF_TIER', 'quick')
  return t if t in ('quick', 'thorough') else 'quick'


def _adopt_replay_settings():
  """--replay FILE re-runs the check with the seed and tier the case was found with."""
  path = os.environ.get('VERIF_REPLAY')
  if path:
    try:
      with open(path) as f:
        r = json.load(f)
      if 'seed' in r:
        os.environ['VERIF_SEED'] = str(r['seed'])
      if 'tier' in r:
        os.environ['VERIF_TIER'] = str(r['tier'])
    except (OSError, ValueError) as e:
      raise MachineryError(f'cannot read replay file {path}: {e}')


def seed() -> int:
  try:
    return int(os.environ.get('VERIF_SEED', '0'))
  except ValueError:
    return 0


_adopt_replay_settings()


def quiet_logging():
  import logging  # pylint: disable=g-import-not-at-top
  logging.disable(logging.CRITICAL)
  try:
    from absl import logging as absl_logging  # pylint: disable=g-import-not-at-top
    absl_logging.set_verbosity(absl_logging.FATAL)
    absl_logging.set_stderrthreshold('fatal')
  except Exception:  # pylint: disable=broad-except
    pass


def assert_repo_fiddle():
  quiet_logging()
  import fiddle  # pylint: disable=g-import-not-at-top
  path = os.path.realpath(fiddle.__file__)
  if not path.startswith(os.path.realpath(REPO) + os.sep):
    raise MachineryError(f'fiddle imported from {path}, expected under {REPO}')


@contextlib.contextmanager
def scratch(prefix='fdlverif-'):
  d = tempfile.mkdtemp(prefix=prefix)
  try:
    yield d
  finally:
    shutil.rmtree(d, ignore_errors=True)


# ----------------------------------------------------------------------------
# TLC
# ----------------------------------------------------------------------------

_STATS = re.compile(
    r'(\d+) states generated, (\d+) distinct states found, (\d+) states left')
_DEPTH = re.compile(r'The depth of the complete state graph search is (\d+)')
_COV = re.compile(r'^<(\w+) line (\d+), col (\d+) to line (\d+), col (\d+) of module (\w+)>: (\d+):(\d+)')


def cfg_text(constants: dict, *, init='Init', next_='Next', view=None,
             constraints=(), action_constraints=(), invariants=(),
             properties=(), postcondition=None, spec=None) -> str:
  """Renders a TLC .cfg file."""
  out = []
  if constants:
    out.append('CONSTANTS')
    for k, v in constants.items():
      out.append(f'  {k} = {tla_value(v)}')
  if spec:
    out.append(f'SPECIFICATION {spec}')
  else:
    out.append(f'INIT {init}')
    out.append(f'NEXT {next_}')
  if view:
    out.append(f'VIEW {view}')
  for c in constraints:
    out.append(f'CONSTRAINT {c}')
  for c in action_constraints:
    out.append(f'ACTION_CONSTRAINT {c}')
  for i in invariants:
    out.append(f'INVARIANT {i}')
  for p in properties:
    out.append(f'PROPERTY {p}')
  if postcondition:
    out.append(f'POSTCONDITION {postcondition}')
  out.append('CHECK_DEADLOCK FALSE')
  return '\n'.join(out) + '\n'


def tla_value(v) -> str:
  if isinstance(v, bool):
    return 'TRUE' if v else 'FALSE'
  if isinstance(v, int):
    return str(v)
  if isinstance(v, str):
    return '"' + v + '"'
  if isinstance(v, (set, frozenset, list, tuple)):
    return '{' + ', '.join(tla_value(x) for x in sorted(v, key=str)) + '}'
  raise TypeError(v)


class TlcResult:

  def __init__(self):
    self.generated = 0
    self.distinct = 0
    self.depth = 0
    self.ok = False           # "No error has been found"
    self.violation = None     # invariant / property name, or message
    self.errors = []          # raw error lines
    self.coverage = {}        # action name -> (distinct, total)
    self.wall_s = 0.0
    self.lines = 0            # emitted JSON lines
    self.tail = []

  def as_dict(self):
    return {'generated': self.generated, 'distinct': self.distinct,
            'depth': self.depth, 'ok': self.ok, 'violation': self.violation,
            'wall_s': round(self.wall_s, 2), 'emitted': self.lines}


def run_tlc(module: str, cfg: str, *, workdir: str, on_json=None, workers=None,
            simulate: str | None = None, depth: int | None = None,
            seed_: int | None = None, env: dict | None = None,
            timeout: int = 3600, coverage: bool = False,
            extra_modules=(), dfs: bool = False) -> TlcResult:
  """Runs TLC on spec/<module>.tla with the given cfg text.

  `on_json(obj_or_line)` receives each emitted JSON line (already decoded once:
  TLC prints a TLA+ string literal whose content is the JSON text).
  The spec directory is used in place (read-only); metadir and cfg go to workdir.
  """
  os.makedirs(workdir, exist_ok=True)
  cfg_path = os.path.join(workdir, f'{module}.cfg')
  with open(cfg_path, 'w') as f:
    f.write(cfg)
  meta = os.path.join(workdir, 'meta-' + module)
  cmd = ['java', '-XX:+UseParallelGC', '-Xmx12g']
  if dfs:
    cmd.append('-Dtlc2.tool.queue.IStateQueue=StateDeque')
  cmd += ['-cp', '/opt/veriftools/tla/tla2tools.jar:/opt/veriftools/tla/CommunityModules-deps.jar',
          'tlc2.TLC', '-metadir', meta, '-noGenerateSpecTE',
          '-workers', str(workers or NCPU), '-config', cfg_path]
  if coverage:
    cmd += ['-coverage', '1']
  if simulate:
    cmd += ['-simulate', simulate]
    if depth:
      cmd += ['-depth', str(depth)]
  if seed_ is not None:
    cmd += ['-seed', str(seed_)]
  cmd.append(os.path.join(SPEC, module + '.tla'))
  e = dict(os.environ)
  e.pop('JAVA_TOOL_OPTIONS', None)
  if env:
    e.update(env)
  res = TlcResult()
  t0 = time.time()
  proc = subprocess.Popen(cmd, cwd=SPEC, stdout=subprocess.PIPE,
                          stderr=subprocess.STDOUT, env=e, text=True,
                          bufsize=1 << 20)
  deadline = t0 + timeout
  try:
    for line in proc.stdout:
      if line.startswith('"{') or line.startswith('"['):
        res.lines += 1
        if on_json is not None:
          on_json(line)
        continue
      line = line.rstrip('\n')
      res.tail.append(line)
      if len(res.tail) > 400:
        del res.tail[:200]
      m = _STATS.search(line)
      if m:
        res.generated, res.distinct = int(m.group(1)), int(m.group(2))
      m = _DEPTH.search(line)
      if m:
        res.depth = int(m.group(1))
      if 'No error has been found' in line:
        res.ok = True
      if line.startswith('Error:') or 'is violated' in line or 'Exception' in line:
        res.errors.append(line)
        m2 = re.search(r'Invariant (\w+) is violated', line)
        if m2:
          res.violation = m2.group(1)
      if coverage:
        m = _COV.match(line)
        if m:
          res.coverage[m.group(1)] = (int(m.group(7)), int(m.group(8)))
      if time.time() > deadline:
        proc.kill()
        res.errors.append('TIMEOUT')
        break
  finally:
    proc.stdout.close()
    proc.wait()
  res.wall_s = time.time() - t0
  if simulate and not res.errors and proc.returncode in (0,):
    res.ok = True
  shutil.rmtree(meta, ignore_errors=True)
  return res


def decode_line(line: str):
  """TLC prints ToJson output as a TLA+ string literal: unescape, then parse."""
  return json.loads(json.loads(line))


def require_tlc_ok(res: TlcResult, what: str):
  if not res.ok:
    raise MachineryError(
        f'TLC did not complete cleanly for {what}: {res.errors[:5]}\n'
        + '\n'.join(res.tail[-30:]))


# ----------------------------------------------------------------------------
# Known findings
# ----------------------------------------------------------------------------

class KnownFindings:
  """Committed list of genuine defects (never written at run time).

  An entry {id, status: known|fixed, property, what, fingerprint:{k: v}}
  matches a mismatch whose feature dict has, for every fingerprint key, an
  equal value (or a member, when the fingerprint value is a list).
  Only status == known suppresses; fixed entries are documentation.
  """

  def __init__(self, path=None):
    path = path or os.path.join(VERIF, 'known_findings.json')
    with open(path) as f:
      self.entries = json.load(f)
    self.hits = {}

  def match(self, prop: str, features: dict):
    for e in self.entries:
      if e.get('status') != 'known' or e.get('property') != prop:
        continue
      fp = e['fingerprint']
      ok = True
      for k, v in fp.items():
        fv = features.get(k, '<absent>')
        if isinstance(v, list):
          if fv not in v:
            ok = False
            break
        elif fv != v:
          ok = False
          break
      if ok:
        return e
    return None

  def note(self, entry, example):
    h = self.hits.setdefault(entry['id'], {'count': 0, 'example': example, 'entry': entry})
    h['count'] += 1

  def print_lines(self, prop):
    for kid, h in sorted(self.hits.items()):
      e = h['entry']
      print(f"KNOWN-FINDING: property={prop} {kid} {e['what']} (x{h['count']})")


# ----------------------------------------------------------------------------
# Verdict + evidence
# ----------------------------------------------------------------------------

class Verdict:
  """Collects violations / known findings / coverage for one check run."""

  def __init__(self, prop: str, level: str):
    self.prop = prop
    self.level = level
    self.t0 = time.time()
    self.kf = KnownFindings()
    self.violations = []      # list of dicts (feature dict + case)
    self.groups = {}
    self.coverage = {'samples': []}
    self.assumptions = []
    self.notes = []

  def mismatch(self, features: dict, case: dict):
    """A spec/code disagreement: known finding or violation."""
    e = self.kf.match(self.prop, features)
    if e is not None:
      self.kf.note(e, case)
      return False
    key = json.dumps({k: v for k, v in features.items() if k != 'form'}, sort_keys=True)
    g = self.groups.setdefault(key, {'count': 0, 'case': case})
    g['count'] += 1
    if g['count'] <= 2 and len(self.violations) < 400:
      self.violations.append({'features': features, 'case': case})
    else:
      self.violations.append(None)
    return True

  def add(self, key, n=1):
    self.coverage[key] = self.coverage.get(key, 0) + n

  def sample(self, s, cap=5):
    if len(self.coverage['samples']) < cap:
      self.coverage['samples'].append(s)

  def _finish_replay(self, path) -> int:
    """--replay FILE: the (deterministic) check was re-run; report whether the recorded case recurs.

    A replay never rewrites the evidence file.  Exit 1 with the VIOLATION line iff a violation with the
    recorded feature fingerprint is reproduced on the current tree, else exit 0.
    """
    with open(path) as f:
      want = json.load(f)
    wkey = json.dumps(want.get('features'), sort_keys=True, default=str)
    print('REPLAY case:', json.dumps(want.get('case'), default=str)[:2000])
    for v in self.violations:
      if v is not None and json.dumps(v['features'], sort_keys=True, default=str) == wkey:
        print(f'VIOLATION property={self.prop} replay={path}')
        print('  features:', wkey[:600])
        print('  now:', json.dumps(v['case'], default=str)[:2000])
        return 1
    print(f'[{self.prop}] replay: the recorded violation does not recur on the current tree '
          f'(features {wkey[:300]})')
    return 0

  def finish(self) -> int:
    if os.environ.get('VERIF_REPLAY'):
      return self._finish_replay(os.environ['VERIF_REPLAY'])
    os.makedirs(REPLAYS, exist_ok=True)
    nviol = len(self.violations)
    self.kf.print_lines(self.prop)
    if os.environ.get('VERIF_DEBUG'):
      for key, g in sorted(self.groups.items(), key=lambda kv: -kv[1]['count'])[:12]:
        print(f"GROUP x{g['count']}: {key}\n      e.g. {json.dumps(g['case'], default=str)[:700]}")
    replay_paths = []
    seen = set()
    for v in self.violations:
      if v is None:
        continue
      key = json.dumps(v['features'], sort_keys=True)
      if key in seen:
        continue
      seen.add(key)
      if len(replay_paths) >= 10:
        break
      h = hashlib.sha1(json.dumps(v, sort_keys=True, default=str).encode()).hexdigest()[:12]
      p = os.path.join(REPLAYS, f'{self.prop}-{h}.json')
      with open(p, 'w') as f:
        json.dump({'property': self.prop, 'seed': seed(), 'tier': tier(), **v}, f, indent=1, default=str)
      replay_paths.append(p)
      print(f'VIOLATION property={self.prop} replay={p}')
      print('  features:', json.dumps(v['features'], sort_keys=True, default=str)[:600])
    cov = dict(self.coverage)
    cov['known_findings_hit'] = {k: h['count'] for k, h in self.kf.hits.items()}
    if self.notes:
      cov['notes'] = self.notes
    ev = {
        'property_id': self.prop,
        'tier': tier(),
        'seed': seed(),
        'level': self.level,
        'coverage': cov,
        'assumptions': self.assumptions,
        'wall_s': round(time.time() - self.t0, 2),
        'violations': nviol,
    }
    validate_evidence(ev)
    os.makedirs(EVID, exist_ok=True)
    with open(os.path.join(EVID, f'{self.prop}.json'), 'w') as f:
      json.dump(ev, f, indent=1, default=str)
    print(f'[{self.prop}] tier={tier()} seed={seed()} violations={nviol} '
          f'known={sum(h["count"] for h in self.kf.hits.values())} '
          f'wall={ev["wall_s"]}s')
    return 1 if nviol else 0


def validate_evidence(ev: dict):
  """Minimal structural validation mirroring EVIDENCE.schema.json."""
  for k in ('property_id', 'tier', 'seed', 'level', 'coverage', 'wall_s'):
    if k not in ev:
      raise MachineryError(f'evidence lacks {k}')
  cov = ev['coverage']
  lvl = ev['level']
  def generic():
    return (cov.get('evaluations', 0) >= 1 and cov.get('distinct_nontrivial', 0) >= 2
            and isinstance(cov.get('samples'), list) and len(cov['samples']) >= 1)
  if lvl in ('exploration', 'fault_enumeration'):
    if not generic() or 'rule' not in cov:
      raise MachineryError('evidence: generic coverage keys missing')
  elif lvl == 'model_checking':
    keys = ('states', 'transitions', 'traces_validated_against_impl', 'samples')
    if all(k in cov for k in keys):
      if cov['states'] < 1 or cov['transitions'] < 1 or not cov['samples']:
        raise MachineryError('evidence: model_checking counts must be positive')
    elif not generic():
      raise MachineryError('evidence: model_checking keys missing')
  elif lvl == 'translation_validation':
    keys = ('programs', 'disagreements_checked', 'samples')
    if all(k in cov for k in keys):
      if cov['programs'] < 1 or not cov['samples']:
        raise MachineryError('evidence: translation_validation counts')
    elif not generic():
      raise MachineryError('evidence: translation_validation keys missing')


class Dispatcher:
  """Feeds TLC's emitted lines to a process pool in chunks."""

  def __init__(self, workfn, chunk=1500):
    self.pool = mp.Pool(NCPU)
    self.workfn = workfn
    self.chunk = chunk
    self.buf = []
    self.pending = []

  def __call__(self, line):
    self.buf.append(line)
    if len(self.buf) >= self.chunk:
      self.flush()

  def flush(self):
    if self.buf:
      self.pending.append(self.pool.apply_async(self.workfn, (self.buf,)))
      self.buf = []

  def results(self):
    self.flush()
    for p in self.pending:
      yield p.get()
    self.pool.close()
    self.pool.join()


def main_wrapper(fn):
  """Runs a check's main(); maps MachineryError to exit 2."""
  try:
    assert_repo_fiddle()
    rc = fn()
  except MachineryError as e:
    print(f'MACHINERY-FAILURE: {e}', file=sys.stderr)
    sys.exit(2)
  except Exception as e:  # pylint: disable=broad-except
    import traceback  # pylint: disable=g-import-not-at-top
    traceback.print_exc()
    # An exception that fiddle itself raised (innermost frame inside the repository's fiddle package, here or
    # in a worker process) during an operation that succeeds on the unchanged tree is a change of behaviour
    # of the code under test, not a failure of the machinery: report it as a violation.
    tb = ''.join(traceback.format_exception(type(e), e, e.__traceback__))
    root = os.path.join(os.path.realpath(REPO), 'fiddle') + os.sep
    raised_by_fiddle = False
    for seg in tb.split('Traceback (most recent call last):')[1:]:
      files = re.findall(r'File "([^"]+)", line \d+', seg)
      if files and os.path.realpath(files[-1]).startswith(root):
        raised_by_fiddle = True
    prop = getattr(sys.modules.get('__main__'), 'PROP', None)
    if raised_by_fiddle and prop and not os.environ.get('VERIF_REPLAY'):
      os.makedirs(REPLAYS, exist_ok=True)
      h = hashlib.sha1(tb.encode()).hexdigest()[:12]
      path = os.path.join(REPLAYS, f'{prop}-{h}.json')
      with open(path, 'w') as f:
        json.dump({'property': prop, 'seed': seed(), 'tier': tier(),
                   'features': {'clause': 'fiddle-raised-unexpectedly', 'exception': type(e).__name__},
                   'case': {'message': 'an operation that succeeds on the unchanged tree raised inside fiddle',
                            'traceback': tb[-4000:]}}, f, indent=1)
      print(f'VIOLATION property={prop} replay={path}')
      print('  features:', json.dumps({'clause': 'fiddle-raised-unexpectedly', 'exception': type(e).__name__}))
      sys.exit(1)
    print('MACHINERY-FAILURE: unexpected exception in the harness', file=sys.stderr)
    sys.exit(2)
  sys.exit(rc)
