"""C09 — JSON serialization is lossless or loud, and policy-gated.

MC  : spec/MC_Heaps generates every configuration in the bound; spec/MC_C09D
      generates ARBITRARY documents (object tables of leaves, pyrefs, lists) x
      every status assignment of the referenced symbols (approved / forbidden by
      allows_import / rejected by allows_value / missing) with the outcome and
      the set of symbols the loader may import (FdlSerial); spec/FdlBytes is the
      codec model for bytes (as found: violates LosslessOrLoud; latin-1: holds).
S->C: round trip of every heap (dump_json, strict JSON parse, load_json under a
      recording policy with recording callables, projection, re-dump); every
      document is built for real and loaded under the recording policy.
Exploration (labelled as such): leaf value classes -- big ints, special floats,
      arbitrary str / bytes, enums, sets, slices, named tuples, defaultdicts,
      NO_VALUE, dict keys of every serializable type, registered constants,
      dict-based objects.
"""
from __future__ import annotations

import collections
import enum
import json
import math
import os
import random
import sys

import fiddle as fdl
from fiddle._src import tagging
from fiddle._src.experimental import serialization as ser

from harness import common
from harness import heap as H
from harness import pool
from harness import c02
from harness import c09syms

PROP = 'C09'


def strict_loads(text):
  def bad(tok):
    raise ValueError('non-standard JSON constant ' + tok)
  return json.loads(text, parse_constant=bad)


class RecPolicy(ser.PyrefPolicy):
  """Approves by table; records every question and every verdict."""

  def __init__(self, status=None, allow_rest=True):
    self.status = status or {}
    self.allow_rest = allow_rest
    self.asked = []
    self.values = []

  def allows_import(self, module, symbol):
    self.asked.append((module, symbol))
    st = self.status.get((module, symbol))
    if st is None:
      return self.allow_rest
    return st != 'forbidden'

  def allows_value(self, value):
    self.values.append(value)
    for (m, s), st in self.status.items():
      if st == 'tainted' and value is c09syms._REAL.get(s):
        return False
    return True


# ------------------------- (1) heap round trip -------------------------------

def check_heap(rec):
  hp = rec['heap']
  root, _ = H.realize(hp)
  shape = {'n_objs': len(hp), 'kinds': ''.join(sorted({o['k'][0] for o in hp}))}
  pool.CALL_LOG.clear()
  try:
    text = ser.dump_json(root)
  except Exception as e:  # pylint: disable=broad-except
    return [(dict(shape, clause='dump-raises', observed=type(e).__name__), str(e)[:200])]
  mism = []
  try:
    strict_loads(text)
  except ValueError as e:
    mism.append((dict(shape, clause='invalid-json'), str(e)[:100]))
  pol = RecPolicy()
  try:
    back = ser.load_json(text, pyref_policy=pol)
  except Exception as e:  # pylint: disable=broad-except
    return mism + [(dict(shape, clause='load-raises', observed=type(e).__name__), str(e)[:200])]
  if pool.CALL_LOG:
    mism.append((dict(shape, clause='callable-invoked'), f'{len(pool.CALL_LOG)} configured callables ran'))
  got, _ = H.project(back)
  if got != hp:
    mism.append((dict(shape, clause='round-trip'), f'{json.dumps(got)} vs {json.dumps(hp)}'))
  try:
    again = ser.dump_json(back)
    if json.loads(again) != json.loads(text):
      mism.append((dict(shape, clause='redump-differs'), 'second dump differs from the first'))
  except Exception as e:  # pylint: disable=broad-except
    mism.append((dict(shape, clause='redump-raises', observed=type(e).__name__), str(e)[:100]))
  # every symbol resolved was asked about first
  return mism


def work_heaps(lines):
  stats = {'lines': 0, 'nontrivial': 0}
  mismatches = []
  sample = None
  for line in lines:
    rec = common.decode_line(line)
    stats['lines'] += 1
    for f, msg in check_heap(rec):
      mismatches.append((f, {'heap': rec['heap'], 'message': msg[:600]}))
    if len(rec['heap']) >= 2:
      stats['nontrivial'] += 1
    if sample is None and len(rec['heap']) >= 3:
      sample = {'heap': rec['heap']}
  return stats, mismatches, sample


# ------------------------- (3) arbitrary documents ---------------------------

SYMNAME = {1: 'sym_a', 2: 'sym_b', 3: 'sym_c'}


def build_document(objects, status):
  """Abstract object table -> real serialized document and the policy table."""
  names = {}
  table = {}
  for n, node in enumerate(objects, start=1):
    names[n] = f'obj_{n}'
  def real_sym(s):
    return SYMNAME[s] if status[s - 1] != 'missing' else f'missing_{s}'
  for n, node in enumerate(objects, start=1):
    t = node['t']
    if t == 'leaf':
      out = {'type': 'leaf', 'value': n}
    elif t == 'pyref':
      out = {'type': 'pyref', 'module': 'harness.c09syms', 'name': real_sym(node['sym'])}
    elif t == 'list':
      out = {'type': {'type': 'pyref', 'module': 'builtins', 'name': 'list'},
             'items': [[f'Index(index={j})', {'type': 'ref', 'key': names[c]}]
                       for j, c in enumerate(node['items'])],
             'metadata': None}
    else:
      raise ValueError(t)
    table[names[n]] = out
  doc = {'root': {'type': 'ref', 'key': names[len(objects)]}, 'objects': table,
         'refcounts': {}, 'version': '0.0.1'}
  pol = {('harness.c09syms', real_sym(s)): status[s - 1] for s in (1, 2, 3)}
  return doc, pol, real_sym


def expected_value(objects, n, memo):
  if n in memo:
    return memo[n]
  node = objects[n - 1]
  if node['t'] == 'leaf':
    r = n
  elif node['t'] == 'pyref':
    r = c09syms._REAL[SYMNAME[node['sym']]]
  else:
    r = [expected_value(objects, c, memo) for c in node['items']]
  memo[n] = r
  return r


def check_doc(rec):
  objects, status = rec['objects'], rec['status']
  doc, table, real_sym = build_document(objects, status)
  pol = RecPolicy(table)
  c09syms.ACCESS_LOG.clear()
  c09syms.CALLS.clear()
  try:
    val = ser.load_json(json.dumps(doc), pyref_policy=pol)
    out = 'ok'
  except Exception as e:  # pylint: disable=broad-except
    out, val = 'error', type(e).__name__
  resolved = {s for s in (1, 2, 3) if real_sym(s) in c09syms.ACCESS_LOG}
  base = {'expected': rec['out'], 'observed': out,
          'statuses': ''.join(sorted(set(x[0] for x in status)))}
  mism = []
  if out != rec['out']:
    mism.append((dict(base, clause='policy-outcome'),
                 f'load gave {out} ({val}), spec {rec["out"]} for walk {rec["walk"]} status {status}'))
  forbidden = {s for s in (1, 2, 3) if status[s - 1] == 'forbidden'}
  if resolved & forbidden:
    mism.append((dict(base, clause='forbidden-symbol-imported'),
                 f'symbols {sorted(resolved & forbidden)} were resolved although allows_import refused'))
  if not resolved <= set(rec['may']):
    mism.append((dict(base, clause='import-beyond-need'),
                 f'resolved {sorted(resolved)}, spec allows {rec["may"]}'))
  if c09syms.CALLS:
    mism.append((dict(base, clause='callable-invoked'), f'{c09syms.CALLS}'))
  if out == 'ok' and rec['out'] == 'ok':
    exp = expected_value(objects, len(objects), {})
    if val != exp:
      mism.append((dict(base, clause='decoded-value'), f'{val!r} vs {exp!r}'))
  return mism


def work_docs(lines):
  stats = {'lines': 0, 'nontrivial': 0}
  mismatches = []
  sample = None
  for line in lines:
    rec = common.decode_line(line)
    stats['lines'] += 1
    for f, msg in check_doc(rec):
      mismatches.append((f, {'objects': rec['objects'], 'status': rec['status'], 'message': msg[:500]}))
    if rec['walk']:
      stats['nontrivial'] += 1
    if sample is None and len(rec['walk']) >= 2 and rec['out'] == 'error':
      sample = rec
  return stats, mismatches, sample


def real_config_policy(rng, n):
  """Real documents (dumped configurations) x random approval tables."""
  out = []
  count = 0
  fnsyms = {1: ('harness.heap', 'f1'), 2: ('harness.heap', 'ClsA'), 3: ('harness.heap', 'ClsB'),
            4: ('harness.heap', 'g4')}
  for _ in range(n):
    hp = c02.random_heap(rng, rng.randint(2, 6), kinds=('config', 'config', 'list', 'dict'))
    root, _ = H.realize(hp)
    text = ser.dump_json(root)
    used = sorted({o['fn'] for o in hp if o['k'] == 'config'})
    deny = {f for f in used if rng.random() < 0.4}
    pol = RecPolicy({fnsyms[f]: 'forbidden' for f in deny})
    pool.CALL_LOG.clear()
    try:
      ser.load_json(text, pyref_policy=pol)
      res = 'ok'
    except ser.PyrefPolicyError:
      res = 'error'
    except Exception as e:  # pylint: disable=broad-except
      res = 'other:' + type(e).__name__
    exp = 'error' if deny else 'ok'
    count += 1
    if res != exp or pool.CALL_LOG:
      out.append(({'clause': 'policy-outcome-real-config', 'expected': exp, 'observed': res},
                  f'configuration using callables {used}, denied {sorted(deny)}: {res}'))
  return out, count


# ------------------------- (2) leaf value classes ----------------------------

class Color(enum.Enum):
  RED = 1
  BLUE = 'blue'


class Level(enum.IntEnum):
  LOW = 1
  HIGH = 2


class Mode(str, enum.Enum):
  FAST = 'fast'
  SLOW = 'slow'


class Flags(enum.IntFlag):
  A = 1
  B = 2


class MyInt(int):
  pass


class MyStr(str):
  pass


class MyFloat(float):
  pass


NT = collections.namedtuple('NT', ['x', 'y'])


class DictBased:

  def __init__(self, a=1, b=None):
    self.a = a
    self.b = b

  def __eq__(self, other):
    return type(other) is DictBased and self.__dict__ == other.__dict__


def leaf_values(rng):
  def rstr():
    alphabet = ['a', 'Z', '0', ' ', '"', "'", '\\', '\n', '\t', 'é', '中', '\U0001f600',
                '\ud800'[:0] or 'x', '\x00', '\x7f', '{', '}', 'u', 'U', ' ']
    return ''.join(rng.choice(alphabet) for _ in range(rng.randint(0, 12)))
  def rbytes():
    parts = [b'\\u0041', b'\\U00000041', b'\\u00e9', b'\\', b'\\\\', b'\\x41', b'\xff', b'\x00', b'A',
             b'\\u12', b'\\N{DASH}', b'"', b'\n', b'\xc3\xa9', b'\\u4e2d', b'\\ud800']
    return b''.join(rng.choice(parts) for _ in range(rng.randint(0, 6)))
  vals = [
      ('int-big', lambda: rng.choice([-1, 1]) * rng.getrandbits(rng.choice([8, 64, 200, 1000]))),
      ('float', lambda: rng.choice([0.0, -0.0, 1e-320, 1.7976931348623157e308, rng.random() * 1e10,
                                    float.fromhex('0x1.fffffffffffffp-3')])),
      ('float-special', lambda: rng.choice([float('inf'), float('-inf'), float('nan')])),
      ('bool-none', lambda: rng.choice([True, False, None])),
      ('str', rstr), ('bytes', rbytes),
      ('enum', lambda: rng.choice(list(Color))),
      ('enum-mixin', lambda: rng.choice([Level.HIGH, Mode.SLOW, Flags.A | Flags.B, Flags.B])),
      ('primitive-subclass', lambda: rng.choice([MyInt(5), MyStr('s'), MyFloat(2.5)])),
      ('set', lambda: set(rng.sample(range(50), rng.randint(0, 4)))),
      ('frozenset', lambda: frozenset(rng.sample(['a', 'b', 'c', 1, 2], rng.randint(0, 4)))),
      ('slice', lambda: slice(rng.choice([None, 1]), rng.choice([None, 5]), rng.choice([None, 2]))),
      ('namedtuple', lambda: NT(rstr(), (1, rbytes()))),
      ('defaultdict', lambda: collections.defaultdict(list, {rstr(): [1], 'k': []})),
      ('no_value', lambda: fdl.NO_VALUE),
      ('dict-keys', lambda: {1: 'a', 'b': 2, (1, 'x'): 3, 2.5: 4, True: 5, None: 6, Color.RED: 7,
                             b'k': 8, frozenset([1]): 9}),
      ('dict-based', lambda: DictBased(a=rstr(), b=DictBased(a=rbytes()))),
      ('type-fn', lambda: rng.choice([int, H.f1, H.ClsA, Color, collections.OrderedDict, len])),
      ('tuple-nested', lambda: ((), (1, (2.5, 'x')), [(), {}])),
  ]
  return vals


def same(a, b):
  if type(a) is not type(b):
    return False
  if isinstance(a, float):
    return (math.isnan(a) and math.isnan(b)) or (a == b and math.copysign(1, a) == math.copysign(1, b))
  if isinstance(a, (list, tuple)):
    return len(a) == len(b) and all(same(x, y) for x, y in zip(a, b)) and (
        not hasattr(a, '_fields') or a._fields == b._fields)
  if isinstance(a, collections.defaultdict):
    return a.default_factory == b.default_factory and same(dict(a), dict(b))
  if isinstance(a, dict):
    return len(a) == len(b) and list(a.keys()) == list(b.keys()) and all(
        type(k1) is type(k2) for k1, k2 in zip(a, b)) and all(same(a[k], b[k]) for k in a)
  if isinstance(a, DictBased):
    return same(a.__dict__, b.__dict__)
  if isinstance(a, fdl.Buildable):
    return (type(a) is type(b) and a.__fn_or_cls__ is b.__fn_or_cls__
            and same(dict(a.__arguments__), dict(b.__arguments__)))
  return a == b


class _MBase:

  @classmethod
  def make(cls, n=1):
    return (cls.__name__, n)


class _MChild(_MBase):
  pass


def sharing_and_callable_scenarios():
  """Sharing that runs through holders only the serializer knows how to traverse (dict-based objects,
  set elements, slice bounds), and callables whose name resolves to a different object."""
  try:
    ser.register_dict_based_object(DictBased)
  except Exception:  # pylint: disable=broad-except
    pass
  out = []
  def round_trip(name, make, shared_of):
    x = make()
    try:
      text = ser.dump_json(x)
    except Exception:  # loud: allowed  # pylint: disable=broad-except
      return
    try:
      back = ser.load_json(text)
    except Exception as e:  # pylint: disable=broad-except
      out.append(({'clause': 'load-raises', 'scenario': name, 'observed': type(e).__name__}, f'{name}: {e}'[:200]))
      return
    a, b = shared_of(back)
    if a is not b:
      out.append(({'clause': 'sharing-lost', 'scenario': name}, f'{name}: the shared object came back as two objects'))
  def s1():
    sh = [1, 2]
    return fdl.Config(H.f1, s1=sh, s2=DictBased(a=sh))
  round_trip('list-shared-with-dict-based-attribute', s1, lambda b: (b.s1, b.s2.a))
  def s2():
    sh = [1, 2]
    return [DictBased(a=sh), DictBased(b=sh)]
  round_trip('list-shared-by-two-dict-based-objects', s2, lambda b: (b[0].a, b[1].b))
  def s3():
    nt = NT([1], 2)
    return fdl.Config(H.f1, s1=nt, s2=slice(nt, None))
  round_trip('namedtuple-shared-with-slice-bound', s3, lambda b: (b.s1, b.s2.start))
  def s4():
    cfg = fdl.Config(H.g4, s1=1)
    return fdl.Config(H.f1, s1=cfg, s2=DictBased(a=[cfg]))
  round_trip('config-shared-with-dict-based-attribute', s4, lambda b: (b.s1, b.s2.a[0]))
  # a callable reached through a subclass: written losslessly or refused, never as another callable
  for name, fn in (('inherited-classmethod', _MChild.make), ('own-classmethod', _MBase.make)):
    x = fdl.Config(fn, n=2)
    try:
      text = ser.dump_json(x)
    except Exception:  # loud: allowed  # pylint: disable=broad-except
      continue
    try:
      back = ser.load_json(text)
      same_build = fdl.build(back) == fdl.build(x)
    except Exception as e:  # pylint: disable=broad-except
      out.append(({'clause': 'load-raises', 'scenario': name, 'observed': type(e).__name__}, f'{name}: {e}'[:200]))
      continue
    if not same_build:
      out.append(({'clause': 'callable-changed', 'scenario': name},
                  f'{name}: builds {fdl.build(back)} after the round trip, {fdl.build(x)} before'))
  return out


def explore_leaves(rng, rounds):
  try:
    ser.register_dict_based_object(DictBased)
  except Exception:  # pylint: disable=broad-except
    pass
  out = []
  n = 0
  classes = set()
  for _ in range(rounds):
    for cls, gen in leaf_values(rng):
      v = gen()
      holder = rng.choice(['bare', 'config', 'list', 'shared'])
      if holder == 'config':
        x = fdl.Config(H.f1, s1=v, s2=[v])
      elif holder == 'list':
        x = [v, {'k': v}]
      elif holder == 'shared':
        sh = [v]
        x = fdl.Config(H.f1, s1=sh, s2=(sh, sh))
      else:
        x = v
      n += 1
      try:
        text = ser.dump_json(x)
      except Exception:  # loud: allowed  # pylint: disable=broad-except
        continue
      classes.add(cls)
      feat = {'clause': None, 'leaf_class': cls}
      try:
        strict_loads(text)
      except ValueError as e:
        out.append((dict(feat, clause='invalid-json'), f'{cls}: {e}'))
      try:
        back = ser.load_json(text)
      except Exception as e:  # pylint: disable=broad-except
        out.append((dict(feat, clause='load-raises', observed=type(e).__name__), f'{cls} {v!r}: {e}'[:200]))
        continue
      if not same(back, x):
        out.append((dict(feat, clause='value-changed'), f'{cls} in {holder}: {x!r} -> {back!r}'[:300]))
        continue
      if holder == 'shared' and not (back.s1 is back.s2[0] is back.s2[1]):
        out.append((dict(feat, clause='sharing-lost'), f'{cls}: shared container not shared after load'))
      try:
        t2 = ser.dump_json(back)
        if json.loads(t2) != json.loads(text) and cls not in ('set', 'frozenset', 'float-special'):
          out.append((dict(feat, clause='redump-differs'), f'{cls}'))
      except Exception as e:  # pylint: disable=broad-except
        out.append((dict(feat, clause='redump-raises'), f'{cls}: {e}'[:100]))
  return out, n, sorted(classes)


def main():
  v = common.Verdict(PROP, 'model_checking')
  quick = common.tier() == 'quick'
  with common.scratch() as wd:
    # codec model for bytes: as found it must fail, the repaired codec must hold
    neg = common.run_tlc('FdlBytes', common.cfg_text(dict(MaxLen=6, Codec='raw_unicode_escape'),
                                                    invariants=['LosslessOrLoud']),
                         workdir=os.path.join(wd, 'bneg'))
    if neg.violation != 'LosslessOrLoud':
      raise common.MachineryError('negative control failed: raw_unicode_escape should violate LosslessOrLoud')
    rb = common.run_tlc('FdlBytes', common.cfg_text(dict(MaxLen=6 if quick else 7, Codec='latin1'),
                                                   invariants=['LosslessOrLoud']),
                        workdir=os.path.join(wd, 'bpos'))
    common.require_tlc_ok(rb, 'FdlBytes/latin1')
    totals = {'lines': 0, 'nontrivial': 0}
    states = rb.distinct
    trans = rb.generated
    base = dict(MaxItems=2, NLeaves=1, NSlots=2, NFns=2, EmitOn=True)
    runs = [dict(base, MaxObjs=3, NKeys=3, KindSet={'config', 'partial', 'list', 'dict', 'tuple'},
                 TagChoices={0, 5}, UnsetTagged=True),
            dict(base, MaxObjs=3, NKeys=1, KindSet={'config', 'list', 'tagged', 'ntuple'},
                 TagChoices={0, 2}, UnsetTagged=True)]
    if quick:
      runs[0].update(TagChoices={0}, UnsetTagged=False)
    for n, c in enumerate(runs):
      disp = common.Dispatcher(work_heaps, chunk=300)
      r = common.run_tlc('MC_Heaps', common.cfg_text(c, constraints=['GenPrune'], invariants=['Emit']),
                         workdir=os.path.join(wd, f'h{n}'), on_json=disp)
      common.require_tlc_ok(r, 'MC_Heaps')
      states += r.distinct
      trans += r.generated
      for stats, mism, sample in disp.results():
        for k in totals:
          totals[k] += stats[k]
        for f, case in mism:
          v.mismatch(f, case)
        if sample:
          v.sample(sample)
    disp = common.Dispatcher(work_docs, chunk=500)
    rd = common.run_tlc('MC_C09D', common.cfg_text(dict(NObjs=3 if quick else 4, EmitOn=True),
                                                   invariants=['PolicySound', 'Emit']),
                        workdir=os.path.join(wd, 'docs'), on_json=disp)
    common.require_tlc_ok(rd, 'MC_C09D')
    states += rd.distinct
    trans += rd.generated
    dtot = {'lines': 0, 'nontrivial': 0}
    for stats, mism, sample in disp.results():
      for k in dtot:
        dtot[k] += stats[k]
      for f, case in mism:
        v.mismatch(f, case)
      if sample:
        v.sample(sample)
    rng = random.Random(common.seed() * 217645199 + 12)
    rc, nrc = real_config_policy(rng, 300 if quick else 3000)
    for f, msg in rc:
      v.mismatch(f, {'message': msg})
    lv, nlv, classes = explore_leaves(rng, 40 if quick else 400)
    for f, msg in lv + sharing_and_callable_scenarios():
      v.mismatch(f, {'message': msg})
    # positional-only / *args / keyword-only / **kwargs argument stores (FdlStore states) through JSON
    from harness import storecodec  # pylint: disable=g-import-not-at-top
    sc = storecodec.run(v, wd, quick, storecodec.JSON_CODECS)
  v.coverage.update({
      'store_states_round_tripped': sc,
      'states': states, 'transitions': trans,
      'traces_validated_against_impl': totals['lines'] + dtot['lines'] + nrc,
      'evaluations': totals['lines'] + dtot['lines'] + nrc + nlv,
      'distinct_nontrivial': totals['nontrivial'] + dtot['nontrivial'],
      'rule': 'heaps: one round trip per complete heap from TLC (non-trivial: >= 2 objects); documents: one '
              'load per (object table, status assignment) from TLC (non-trivial: the loader meets a pyref); '
              'real configurations x random approval tables; leaf value classes are exploration',
      'heaps': totals['lines'], 'documents': dtot['lines'], 'real_config_policy_cases': nrc,
      'leaf_value_cases_exploration': nlv, 'leaf_classes_serialized': classes,
      'bytes_codec_model': {'as_found': 'violates LosslessOrLoud (expected)', 'latin1': rb.as_dict()},
      'exhaustive': True,
  })
  v.assumptions += [
      'numeric / text fidelity of leaves is decided by CPython\'s json module; the model only fixes which '
      'class a leaf is in (that part is exploration)',
      'documents: lists stand for every traversable type; their own type pyref (builtins.list) is approved',
  ]
  return v.finish()


if __name__ == '__main__':
  common.main_wrapper(main)
