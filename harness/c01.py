"""C01 — build(Config(f, ...)) calls f with exactly the configured arguments.

MC  : spec/MC_C01 — level A (BuildExpect: the statement) and level B (fiddle's
      transform_to_args_kwargs followed by CPython call binding); TLC checks
      B refines A in every store state reachable through any constructor call
      and a few edits.  Negative control: the algorithm as found (GapFix=FALSE)
      must violate the refinement.
S->C: one line per distinct state; replayed for every callable form: the
      constructor's acceptance, then fdl.build's result or failure.
"""
from __future__ import annotations

import os

import fiddle as fdl

from harness import common
from harness import pool
from harness import store

PROP = 'C01'
FORMS = ('function', 'class', 'classmethod', 'bound_method', 'callable_instance', 'partial',
         'dataclass')
BUILDABLES = ('Config',)


def expected_locals(sig, bexp):
  return bexp['loc']


def observed_locals(sig, result):
  inst = pool.inst_of(result)
  if inst is None:
    return ('not-an-inst', repr(result)[:80])
  out = []
  for i, p in enumerate(sig):
    name = pool.pname(i + 1)
    if name not in inst.args:
      out.append(['missing'])
      continue
    v = inst.args[name]
    if p['k'] == 'VP':
      out.append([pool.proj_val(x) for x in v])
    elif p['k'] == 'VK':
      flat = []
      for k in sorted(v, key=pool.pid):
        flat += [pool.pid(k), pool.proj_val(v[k])]
      out.append(flat)
    else:
      out.append([pool.proj_val(v)])
  return out


def replay_state(rec, form):
  sig = rec['sig']
  fn = pool.get_fn(sig, form)
  steps = rec['pre']
  ctor = steps[0]['op']
  def feat(clause, exp, obs, exc=None, extra=None):
    f = {'clause': clause, 'expected': exp, 'observed': obs + (':' + exc if exc else ''),
         'form': form}
    if extra:
      f.update(extra)
    return f
  try:
    cfg = store.construct(fn, sig, ctor)
    ctor_out, ctor_exc = 'ok', None
  except Exception as e:  # pylint: disable=broad-except
    ctor_out, ctor_exc = 'raise', type(e).__name__
  if not rec['alive']:
    if ctor_out != 'raise':
      return 'ok', [(feat('constructor', 'raise', 'ok'),
                     f'constructor accepted an unbindable call {ctor}')]
    return 'ok', []
  if ctor_out == 'raise':
    return 'ok', [(feat('constructor', 'ok', 'raise', ctor_exc),
                   f'constructor rejected a valid call {ctor}')]
  if not store.state_eq(store.project(cfg, sig), steps[0]['S']):
    return 'ok', [(feat('constructor-state', 'ok', 'ok'),
                   f'constructor stored {store.project(cfg, sig)}, expected {steps[0]["S"]}')]
  for st in steps[1:]:
    out, _, _ = store.do_op(cfg, sig, st['op'])
    if out != st['out'] or not store.state_eq(store.project(cfg, sig), st['S']):
      return 'dead', []          # judged by C03
  S = rec['S']
  n = store.npos(sig)
  hole = any(S['pre'][i] == 0 and (any(S['pre'][j] != 0 and sig[j]['k'] == 'PO'
                                       for j in range(i + 1, n)) or S['va'])
             for i in range(n) if sig[i]['k'] == 'PO' or S['va'])
  extra = {'positional_gap': hole,
           'kw_named_like_param': any(S['ex'][j] != 0 for j in range(len(sig)))}
  before = store.project(cfg, sig)
  pool.CALL_LOG.clear()
  try:
    result = fdl.build(cfg)
    out, exc = 'ok', None
  except Exception as e:  # pylint: disable=broad-except
    out, exc, result = 'raise', type(e).__name__, None
  bexp = rec['bexp']
  mism = []
  if not store.state_eq(store.project(cfg, sig), before):
    mism.append((feat('build-mutates', bexp['out'], out, exc, extra), 'build changed the config'))
  if bexp['out'] == 'raise':
    if out != 'raise':
      mism.append((feat('build-outcome', 'raise', 'ok', None, extra),
                   f'build returned {observed_locals(sig, result)} although a required '
                   f'parameter is unset in {S}'))
  else:
    if out != 'ok':
      mism.append((feat('build-outcome', 'ok', 'raise', exc, extra),
                   f'build raised for {S}, expected locals {bexp["loc"]}'))
    else:
      obs = observed_locals(sig, result)
      if obs != bexp['loc']:
        mism.append((feat('build-locals', 'ok', 'ok', None, extra),
                     f'callable received {obs}, expected {bexp["loc"]} for {S}'))
      elif len(pool.CALL_LOG) != 1:
        mism.append((feat('build-calls', 'ok', 'ok', None, extra),
                     f'{len(pool.CALL_LOG)} invocations for a single Config'))
  return 'ok', mism


def work(lines):
  stats = {'lines': 0, 'dead': 0, 'replayed': 0, 'nontrivial': 0}
  mismatches = []
  sample = None
  for line in lines:
    rec = common.decode_line(line)
    stats['lines'] += 1
    for form in FORMS:
      if not pool.form_applicable(rec['sig'], form):
        continue
      status, mism = replay_state(rec, form)
      stats['dead' if status == 'dead' else 'replayed'] += 1
      for f, msg in mism:
        mismatches.append((f, {'sig': pool.sig_key(rec['sig']),
                               'program': [s['op'] for s in rec['pre']],
                               'message': msg}))
    if rec['alive'] and rec['bexp']['out'] == 'ok':
      stats['nontrivial'] += 1
    if sample is None and rec['alive'] and len(rec['pre']) > 1:
      sample = {'sig': pool.sig_key(rec['sig']),
                'program': [s['op'] for s in rec['pre']], 'expected_build': rec['bexp']}
  return stats, mismatches, sample


def record_random(rng, n, maxparams):
  """C->S: random signatures/edits on the real library, observed build results."""
  from harness import c03  # random signature / op generators
  recs = []
  while len(recs) < n:
    sig = c03.random_sig(rng, maxparams)
    forms = [f for f in FORMS if pool.form_applicable(sig, f)]
    form = rng.choice(forms)
    fn = pool.get_fn(sig, form)
    cfg = fdl.Config(fn)
    cur = store.project(cfg, sig)
    prog = []
    for _ in range(rng.randint(0, 10)):
      op = c03.random_op(rng, sig, cur)
      if op['name'] in ('getitem', 'getslice', 'getattr', 'oargs', 'dir'):
        continue
      store.do_op(cfg, sig, op)
      prog.append(op)
      cur = store.project(cfg, sig)
      if 'stray' in cur:
        break
    if 'stray' in cur:
      continue
    pool.CALL_LOG.clear()
    try:
      result = fdl.build(cfg)
      out, loc = 'ok', observed_locals(sig, result)
      if not isinstance(loc, list):
        loc = [['bad']]
    except Exception:  # pylint: disable=broad-except
      out, loc = 'raise', []
    recs.append({'tid': len(recs) + 1, 'sig': sig, 'form': form, 'S': cur, 'out': out,
                 'loc': loc, 'program': prog})
  return recs


def validate_random(v, recs, wd):
  import json
  os.makedirs(wd, exist_ok=True)
  path = os.path.join(wd, 'c01traces.json')
  with open(path, 'w') as f:
    json.dump([{k: r[k] for k in ('tid', 'sig', 'S', 'out', 'loc')} for r in recs], f)
  verdicts = {}
  def on_json(line):
    r = common.decode_line(line)
    verdicts[r['tid']] = r
  res = common.run_tlc('Trace_C01', common.cfg_text({'GapFix': True}, init='TInit', next_='TNext'),
                       workdir=os.path.join(wd, 'tr'), on_json=on_json, workers=1,
                       env={'TRACE_FILE': path})
  common.require_tlc_ok(res, 'Trace_C01')
  if len(verdicts) != len(recs):
    raise common.MachineryError(f'Trace_C01 judged {len(verdicts)} of {len(recs)} records')
  acc = 0
  for r in recs:
    vd = verdicts[r['tid']]
    if vd['ok']:
      acc += 1
      continue
    v.mismatch({'clause': 'trace-rejected', 'expected': vd['expected']['out'],
                'observed': r['out'], 'form': r['form']},
               {'sig': pool.sig_key(r['sig']), 'program': r['program'],
                'message': f'build observed {r["out"]} {r["loc"]} in state {r["S"]}; '
                           f'spec expects {vd["expected"]}'})
  return acc


def exact_value_scenarios():
  """The callable receives exactly the configured values: equal-but-different leaves (1 / True / 1.0,
  0.0 / -0.0, an IntEnum member and its int) are not exchanged for one another, alone or in containers."""
  import enum  # pylint: disable=g-import-not-at-top

  class Level(enum.IntEnum):
    ONE = 1

  def rec(*args, **kwargs):
    return (args, kwargs)

  def exact(x):
    if isinstance(x, (list, tuple)):
      return [type(x).__name__] + [exact(y) for y in x]
    if isinstance(x, dict):
      return {k: exact(y) for k, y in x.items()}
    return (type(x).__name__, repr(x))
  out = []
  cases = [((1, True), {}), ((True, 1), {}), ((1, 1.0, True), {'k': 1}), ((0.0, -0.0), {'z': -0.0}),
           ((Level.ONE, 1), {'e': Level.ONE}), (([1, True, 1.0], (True, 1)), {'d': {'a': 1, 'b': True}}),
           (('1', b'1', 1), {}), ((0, False, None, ''), {'n': None})]
  for args, kwargs in cases:
    cfg = fdl.Config(rec, *args, **kwargs)
    inner = fdl.Config(rec, cfg, fdl.Config(rec, *args))
    try:
      got, got_inner = fdl.build(cfg), fdl.build(inner)
    except Exception as e:  # pylint: disable=broad-except
      out.append(({'clause': 'exact-values', 'observed': 'raise:' + type(e).__name__}, f'{args} {kwargs}: {e}'[:200]))
      continue
    exp = rec(*args, **kwargs)
    if exact(got[0]) != exact(exp[0]) or exact(got[1]) != exact(exp[1]):
      out.append(({'clause': 'exact-values', 'observed': 'different-leaf'},
                  f'configured {exact(exp[0])} {exact(exp[1])}, the callable received {exact(got[0])} {exact(got[1])}'))
    elif exact(got_inner[0][0][0]) != exact(exp[0]) or exact(got_inner[0][1][0]) != exact(exp[0]):
      out.append(({'clause': 'exact-values', 'observed': 'different-leaf-nested'},
                  f'nested: configured {exact(exp[0])}, received {exact(got_inner[0][0][0])} / {exact(got_inner[0][1][0])}'))
  return out


def main():
  v = common.Verdict(PROP, 'model_checking')
  quick = common.tier() == 'quick'
  consts = dict(MaxParams=3 if quick else 4, MaxVa=2, MaxOps=2 if quick else 3)
  with common.scratch() as wd:
    # negative control: the algorithm as found must not refine the statement
    neg = common.run_tlc(
        'MC_C01',
        common.cfg_text(dict(MaxParams=2, MaxVa=1, MaxOps=2, EmitOn=False, GapFix=False),
                        view='AbsView', constraints=['Bound'],
                        invariants=['Refines']),
        workdir=os.path.join(wd, 'neg'))
    if neg.violation != 'Refines':
      raise common.MachineryError(
          'negative control failed: the pre-repair argument transformation should '
          f'violate Refines, TLC said {neg.as_dict()}')
    disp = common.Dispatcher(work, chunk=300)
    res = common.run_tlc(
        'MC_C01',
        common.cfg_text(dict(consts, EmitOn=True, GapFix=True), view='AbsView',
                        constraints=['Bound'],
                        invariants=['TypeOK', 'Refines', 'NoMisbinding', 'EmitState']),
        workdir=os.path.join(wd, 'mc'), on_json=disp)
    common.require_tlc_ok(res, 'MC_C01')
    totals = {'lines': 0, 'dead': 0, 'replayed': 0, 'nontrivial': 0}
    for stats, mism, sample in disp.results():
      for k in totals:
        totals[k] += stats[k]
      for f, case in mism:
        v.mismatch(f, case)
      if sample:
        v.sample(sample)
    import random
    rng = random.Random(common.seed() * 104729 + 1)
    recs = record_random(rng, 600 if quick else 6000, 7)
    # binding demo: one corrupted record must be rejected
    bad = dict(recs[0], tid=len(recs) + 1, out='ok' if recs[0]['out'] == 'raise' else 'raise')
    vneg = common.Verdict(PROP, 'model_checking')
    vneg.kf.entries = []
    if validate_random(vneg, [dict(bad, tid=1)], os.path.join(wd, 'negtrace')) != 0:
      raise common.MachineryError('Trace_C01 accepted a corrupted record')
    accepted = validate_random(v, recs, wd)
    for f, msg in exact_value_scenarios():
      v.mismatch(f, {'message': msg})
  v.coverage.update({
      'c2s_records': len(recs), 'c2s_accepted': accepted,
      'states': res.distinct, 'transitions': res.generated,
      'traces_validated_against_impl': totals['replayed'] + len(recs),
      'evaluations': totals['replayed'],
      'distinct_nontrivial': totals['nontrivial'],
      'rule': 'one case per distinct TLC state (signature x constructor call x <= MaxOps edits), '
              'replayed for each applicable callable form; non-trivial = the configured arguments '
              'form a call (build expected to succeed)',
      'negative_control': f'GapFix=FALSE violates {neg.violation} (expected)',
      's2c_lines': totals['lines'], 's2c_dead': totals['dead'],
      'forms': list(FORMS), 'exhaustive': True,
      'bounds': consts,
  })
  v.assumptions += [
      'nesting of Buildables inside containers is decided by the FdlBuild specification (C02 check), '
      'which records each built instance\'s arguments by key',
      'dataclass form covers positional-or-keyword and keyword-only fields with default / default_factory',
  ]
  return v.finish()


if __name__ == '__main__':
  common.main_wrapper(main)
