"""C17 — read-only and copy-returning APIs never modify their input.

MC  : spec/MC_C17 (FdlFrame): one action CallApi(a) per entry point with the
      single clause UNCHANGED heap; TLC generates every configuration shape in
      the bound (shared nodes, tags, tagged arguments without value, Partials).
S->C: every heap x every entry point (about sixty call forms): projection
      (callables, arguments, tags, sharing) and the identity of every object
      before and after the call.  An API that raises on a shape is recorded as
      `raise`; the frame condition still applies.
C->S: a sample of the recorded (api, pre, post) events plus every event whose
      projection changed is validated by spec/Trace_C17 against CallApi.
"""
from __future__ import annotations

import copy
import io
import json
import os
import pickle
import random

import fiddle as fdl
from fiddle import daglish
from fiddle import selectors
from fiddle import printing
from fiddle import graphviz as fdl_graphviz
from fiddle._src import tagging
from fiddle._src import diffing
from fiddle._src import materialize
from fiddle._src.experimental import visualize
from fiddle._src.experimental import transform
from fiddle._src.experimental import serialization
from fiddle._src.experimental import yaml_serialization
from fiddle._src.validation import check_types
from fiddle._src.validation import no_custom_objects
from fiddle._src.validation import baseline_style
from fiddle._src.debug import grep as grep_lib
from fiddle._src.codegen import new_codegen
from fiddle._src.codegen import legacy_codegen
from fiddle._src.codegen import codegen_diff
from fiddle._src.codegen.auto_config import experimental_top_level_api

from harness import common
from harness import heap as H
from harness import c02
from harness import pool

PROP = 'C17'

LONG = 'long-value-' * 12


def _other(cfg):
  o = copy.deepcopy(cfg)
  if isinstance(o, fdl.Buildable):
    try:
      o.s3 = 424242
    except Exception:  # pylint: disable=broad-except
      pass
  return o


def _consume(x):
  if hasattr(x, '__iter__') and not isinstance(x, (str, bytes, dict)):
    for _ in x:
      pass
  return x


def _first_buildable_child(cfg):
  for v, _ in daglish.iterate(cfg):
    if isinstance(v, fdl.Buildable) and v is not cfg:
      return v
  return None


def _sub_fixtures(cfg):
  ch = _first_buildable_child(cfg)
  return {'sub_fixture': ch} if ch is not None else None


APIS = {
    # core
    'build': fdl.build,
    'repr': repr,
    'str': str,
    'eq': lambda c: c == _other(c),
    'eq-self': lambda c: c == c,  # pylint: disable=comparison-with-itself
    'ne': lambda c: c != _other(c),
    'dir': dir,
    'getitem-all': lambda c: c[:] if isinstance(c, fdl.Buildable) else None,
    'ordered_arguments': lambda c: [fdl.ordered_arguments(c, include_defaults=d, include_unset=u)
                                    for d in (0, 1) for u in (0, 1)],
    'ordered_arguments-neq-default': lambda c: fdl.ordered_arguments(c, include_equal_to_default=False),
    'get_callable': fdl.get_callable,
    'get_tags': lambda c: [tagging.get_tags(c, 's1'), tagging.get_tags(c, 's2')],
    'list_tags': lambda c: [tagging.list_tags(c), tagging.list_tags(c, add_superclasses=True)],
    'copy': copy.copy,
    'deepcopy': copy.deepcopy,
    'pickle': pickle.dumps,
    'hash-signature': lambda c: c.__signature_info__.valid_param_names,
    # copies
    'cast-partial': lambda c: fdl.cast(fdl.Partial, c),
    'cast-config': lambda c: fdl.cast(fdl.Config, c),
    'copy_with': lambda c: fdl.copy_with(c, s3=5),
    # an override that carries a tag, for arguments that are already tagged in the input
    'copy_with-tagged-override': lambda c: fdl.copy_with(c, s1=H.T2.new(5), s2=H.T1.new(6)),
    'deepcopy_with-tagged-override': lambda c: fdl.deepcopy_with(c, s1=H.T2.new(5), s2=H.T1.new(6)),
    'deepcopy_with': lambda c: fdl.deepcopy_with(c, s3=5),
    'materialize_tags': tagging.materialize_tags,
    'materialize_tags-some': lambda c: tagging.materialize_tags(c, tags={H.T0}),
    'materialize_tags-clear': lambda c: tagging.materialize_tags(c, clear_field_tags=True),
    'clear_argument_history': serialization.clear_argument_history,
    # printing
    'as_str_flattened': printing.as_str_flattened,
    'as_str_flattened-raw': lambda c: printing.as_str_flattened(c, include_types=False,
                                                              raw_value_repr=True),
    'as_dict_flattened': printing.as_dict_flattened,
    'history_per_leaf_parameter': printing.history_per_leaf_parameter,
    'graphviz-render': lambda c: fdl_graphviz.render(c).source,
    'graphviz-render-depth': lambda c: fdl_graphviz.render(c, max_depth=1).source,
    'graphviz-render-strlen': lambda c: fdl_graphviz.render(c, max_str_length=10).source,
    'graphviz-render_diff': lambda c: fdl_graphviz.render_diff(old=c, new=_other(c)).source,
    'dump_yaml': yaml_serialization.dump_yaml,
    # visualize / transform
    'trimmed': lambda c: visualize.trimmed(c, [b for b in [_first_buildable_child(c)] if b is not None]),
    'with_defaults_trimmed': visualize.with_defaults_trimmed,
    'with_defaults_trimmed-deep': lambda c: visualize.with_defaults_trimmed(c, remove_deep_defaults=True),
    'depth_over': lambda c: visualize.depth_over(c, 1),
    'structure': visualize.structure,
    'trim_fields_to': lambda c: visualize.trim_fields_to(c, ['s1']),
    'trim_long_fields': lambda c: visualize.trim_long_fields(c, 10),
    # thresholds at the boundary: the long leaf is long by repr() only
    'trim_long_fields-boundary': lambda c: visualize.trim_long_fields(c, len(LONG)),
    'trim_long_fields-boundary+1': lambda c: visualize.trim_long_fields(c, len(LONG) + 1),
    'graphviz-render-strlen-boundary': lambda c: fdl_graphviz.render(c, max_str_length=len(LONG)).source,
    'unintern_tuples_of_literals': transform.unintern_tuples_of_literals,
    'replace_unconfigured_partials_with_callables':
        transform.replace_unconfigured_partials_with_callables,
    # serialization / diff
    'dump_json': serialization.dump_json,
    'build_diff-old': lambda c: diffing.build_diff(c, _other(c)),
    'build_diff-new': lambda c: diffing.build_diff(_other(c), c),
    'build_diff-same-objects': lambda c: diffing.build_diff(c, fdl.copy_with(c, s3=9)),
    'align_heuristically': lambda c: diffing.align_heuristically(c, _other(c)),
    'skeleton_from_diff': lambda c: diffing.skeleton_from_diff(diffing.build_diff(c, _other(c))),
    'fiddler_from_diff': lambda c: codegen_diff.fiddler_from_diff(
        diffing.build_diff(c, _other(c)), old=c).code,
    # validation / debug
    'check_types': check_types.check_types,
    'get_type_errors': check_types.get_type_errors,
    'check_no_custom_objects': no_custom_objects.check_no_custom_objects,
    'check_baseline_style': baseline_style.check_baseline_style,
    'grep': lambda c: grep_lib.grep(c, 's1', output_fn=lambda *a: None),
    # codegen
    'new_codegen': new_codegen.new_codegen,
    'new_codegen-options': lambda c: new_codegen.new_codegen(
        c, sub_fixtures=_sub_fixtures(c), max_expression_complexity=1, include_history=True),
    'auto_config_codegen': experimental_top_level_api.auto_config_codegen,
    'auto_config_codegen-options': lambda c: experimental_top_level_api.auto_config_codegen(
        c, sub_fixtures=_sub_fixtures(c), max_expression_complexity=1, include_history=True),
    'codegen_dot_syntax': lambda c: '\n'.join(legacy_codegen.codegen_dot_syntax(c).lines()),
    # selection / traversal
    'select-iter': lambda c: _consume(selectors.select(c, H.f1)),
    'select-iter-subclass': lambda c: _consume(selectors.select(c, H.ClsA, match_subclasses=True)),
    'select-get': lambda c: _consume(selectors.select(c, H.f1).get('s1')),
    'select-tag-iter': lambda c: _consume(selectors.select(c, tag=H.T0)),
    'daglish-iterate': lambda c: _consume(daglish.iterate(c)),
    'collect_paths_by_id': lambda c: daglish.collect_paths_by_id(c, memoizable_only=True),
}


def snapshot(root):
  p = H.Projector()
  p.val(root)
  return p.heap, [id(o) for o in p.keep], p.keep


def leaf_override(n):
  # leaf 1: a long string (work for the trimming helpers); leaf 2: the default value of s1
  return LONG if n == 1 else (H.dflt(1) if n == 2 else n)


def _mutating_fn(s1=H.dflt(1), s2=H.dflt(2), s3=H.dflt(3)):
  """A callable that edits the containers it receives (sort / append / setdefault)."""
  for a in (s1, s2, s3):
    if isinstance(a, list):
      a.append('edited-by-callable')
    elif isinstance(a, dict):
      a.setdefault('edited-by-callable', 1)
  return (s1, s2, s3)


H.FNS[9] = _mutating_fn
H.FN_ID[id(_mutating_fn)] = 9


def check_heap(rec, apis):
  mism = []
  events = []
  hp = rec['heap']
  for api in apis + ['build-mutating-callable']:
    if api == 'build-mutating-callable':
      rz = H.Realizer(hp, fn_for=lambda i, o: _mutating_fn)
      root = rz.obj(1)
    else:
      root, _ = H.realize(hp)
    pre, ids, keep = snapshot(root)
    try:
      (fdl.build if api == 'build-mutating-callable' else APIS[api])(root)
      out = 'ok'
    except Exception as e:  # pylint: disable=broad-except
      out = 'raise:' + type(e).__name__
    post, ids2, _ = snapshot(root)
    same_ids = ids == ids2
    events.append((api, out, pre == post and same_ids))
    if pre != post or not same_ids:
      mism.append(({'clause': 'input-modified', 'api': api, 'outcome': out.split(':')[0],
                    'identity_only': pre == post},
                   {'api': api, 'pre': pre, 'post': post, 'out': out}))
  return mism, events


def work(lines):
  stats = {'lines': 0, 'events': 0, 'nontrivial': 0, 'raised': {}, 'okcount': {}}
  mismatches = []
  sample = None
  ev_sample = []
  H.leaf_obj = leaf_override
  H.LEAF_BACK = {LONG: 1, H.dflt(1): 2}
  for line in lines:
    rec = common.decode_line(line)
    stats['lines'] += 1
    mism, events = check_heap(rec, list(APIS))
    stats['events'] += len(events)
    if len(rec['heap']) >= 2:
      stats['nontrivial'] += len(events)
    for api, out, _ in events:
      d = stats['okcount'] if out == 'ok' else stats['raised']
      d[api] = d.get(api, 0) + 1
    for f, case in mism:
      mismatches.append((f, {'heap': rec['heap'], 'message': json.dumps(case)[:800]}))
      ev_sample.append({'api': case['api'], 'pre': case['pre'], 'post': case['post']})
    if (len(line) + stats['lines']) % 23 == 0 and len(ev_sample) < 40:
      root, _ = H.realize(rec['heap'])
      pre, _, _ = snapshot(root)
      api = list(APIS)[(len(line) + stats['lines']) % len(APIS)]
      try:
        APIS[api](root)
      except Exception:  # pylint: disable=broad-except
        pass
      post, _, _ = snapshot(root)
      ev_sample.append({'api': api, 'pre': pre, 'post': post})
    if sample is None and len(rec['heap']) >= 3:
      sample = {'heap': rec['heap'], 'apis': len(APIS)}
  return stats, mismatches, (sample, ev_sample)


def validate_events(events, wd):
  """C->S: the recorded events must be CallApi steps (UNCHANGED heap)."""
  os.makedirs(wd, exist_ok=True)
  path = os.path.join(wd, 'c17events.json')
  with open(path, 'w') as f:
    json.dump([dict(e, tid=i + 1) for i, e in enumerate(events)], f)
  verdicts = {}
  def on_json(line):
    r = common.decode_line(line)
    verdicts[r['tid']] = r['ok']
  res = common.run_tlc('Trace_C17', common.cfg_text({}, init='TInit', next_='TNext'),
                       workdir=os.path.join(wd, 'tr'), on_json=on_json, workers=1,
                       env={'TRACE_FILE': path})
  common.require_tlc_ok(res, 'Trace_C17')
  return verdicts


def main():
  v = common.Verdict(PROP, 'model_checking')
  quick = common.tier() == 'quick'
  base = dict(MaxItems=2, NLeaves=2, NKeys=1, NSlots=2, EmitOn=True)
  if quick:
    runs = [dict(base, MaxObjs=3, NFns=1, NLeaves=1, KindSet={'config', 'list', 'dict'}, TagChoices={0},
                 UnsetTagged=False),
            dict(base, MaxObjs=2, NFns=2, KindSet={'config', 'partial', 'list', 'dict', 'tuple'},
                 TagChoices={0, 1}, UnsetTagged=True),
            dict(base, MaxObjs=3, NFns=1, KindSet={'config'}, TagChoices={0}, UnsetTagged=False)]
  else:
    # (sized with TLC alone: three objects of five kinds with tags and two callables are 4 M heaps, times
    # sixty entry points)
    runs = [dict(base, MaxObjs=3, NFns=1, NLeaves=1, KindSet={'config', 'list', 'dict'}, TagChoices={0},
                 UnsetTagged=False),
            dict(base, MaxObjs=2, NFns=2, KindSet={'config', 'partial', 'list', 'dict', 'tuple'},
                 TagChoices={0, 1}, UnsetTagged=True),
            dict(base, MaxObjs=3, NFns=1, NLeaves=1, KindSet={'config', 'partial', 'list', 'dict', 'tuple'},
                 TagChoices={0}, UnsetTagged=False),
            dict(base, MaxObjs=3, NFns=1, NLeaves=1, KindSet={'config', 'list'}, TagChoices={0, 1},
                 UnsetTagged=True)]
  with common.scratch() as wd:
    disp = common.Dispatcher(work, chunk=40)
    res = None
    for n, consts in enumerate(runs):
      r = common.run_tlc('MC_C17', common.cfg_text(consts, constraints=['Prune'],
                                                   invariants=['Emit'], properties=['FrameOK']),
                         workdir=os.path.join(wd, f'mc{n}'), on_json=disp)
      common.require_tlc_ok(r, 'MC_C17')
      if res is None:
        res = r
      else:
        res.distinct += r.distinct
        res.generated += r.generated
        res.lines += r.lines
    totals = {'lines': 0, 'events': 0, 'nontrivial': 0}
    raised, okc = {}, {}
    events = []
    for stats, mism, (sample, evs) in disp.results():
      for k in totals:
        totals[k] += stats[k]
      for a, n in stats['raised'].items():
        raised[a] = raised.get(a, 0) + n
      for a, n in stats['okcount'].items():
        okc[a] = okc.get(a, 0) + n
      for f, case in mism:
        v.mismatch(f, case)
      if sample:
        v.sample(sample)
      if len(events) < 3000:
        events += evs
    # spec-side: sampled + all modified events judged by the CallApi action
    good = {'api': 'probe', 'pre': [{'k': 'list', 'fn': 0, 'items': []}],
            'post': [{'k': 'list', 'fn': 0, 'items': []}]}
    bad = {'api': 'probe-bad', 'pre': good['pre'],
           'post': [{'k': 'list', 'fn': 0, 'items': [{'key': 0, 'val': 1, 'tg': 0}]}]}
    verdicts = validate_events([good, bad] + events, os.path.join(wd, 'c2s'))
    if verdicts.get(1) is not True or verdicts.get(2) is not False:
      raise common.MachineryError('Trace_C17 does not separate a changed heap from an unchanged one')
    never_ok = sorted(a for a in APIS if okc.get(a, 0) == 0)
  v.coverage.update({
      'states': res.distinct, 'transitions': res.generated,
      'traces_validated_against_impl': totals['events'],
      'evaluations': totals['events'], 'distinct_nontrivial': totals['nontrivial'],
      'rule': 'one case = (complete heap from TLC, entry point); distinct by construction; non-trivial = heap '
              'with at least two objects',
      'entry_points': len(APIS), 'heaps': totals['lines'],
      'apis_that_raised_on_some_shape': raised, 'apis_never_successful': never_ok,
      'events_judged_by_Trace_C17': len(events) + 2, 'model': res.as_dict(), 'exhaustive': True,
  })
  if never_ok:
    v.notes.append(f'entry points that never returned normally on any shape (frame still checked): {never_ok}')
  v.assumptions += ['leaf 1 is realised as a 132-character string so that the trimming helpers have work to do']
  return v.finish()


if __name__ == '__main__':
  common.main_wrapper(main)
