"""C11 — auto_config: building as_buildable() equals calling the function.

MC  : spec/MC_C11 (FdlAutoConfig) — TLC enumerates every postfix program up to the
      instruction bound and runs it in both semantics (direct / as_buildable);
      ModelTheorem (BuildEqualsCall at every finished program), OnlyExemptInvoked,
      HeapsGrow; negative controls NeverTaggedInResult, NeverShared must be refuted.
S->C: every finished program is decompiled to Python source (variants: module-level
      def, attribute-qualified names, nested def with closure cells, lambda,
      staticmethod, classmethod; splatted arguments; builtin container calls), written
      to a real module file and decorated with the real auto_config.  Checked per
      program: as_buildable() projects to the predicted Buildable graph; only the
      predicted (exempt) callables are invoked by as_buildable; fn(*args) of the
      decorated function, of the undecorated function and fdl.build(as_buildable())
      project to the predicted direct graph and agree when every reachable partial is
      probed twice; control flow is rejected without the option; a result without a
      Buildable is rejected.
Scenarios: constructs outside the instruction set, real-vs-real.
"""
from __future__ import annotations

import functools
import importlib.util
import inspect
import json
import os
import random
import sys

import fiddle as fdl
from fiddle import arg_factory
from fiddle._src import arg_factory as af_lib
from fiddle._src import partial as partial_lib
from fiddle.experimental import auto_config

from harness import common
from harness import heap as H
from harness import pool
from harness import c11lib

PROP = 'C11'
H.FN_ID[id(c11lib.ac1)] = 11
H.FN_ID[id(c11lib.ac2)] = 12

VARIANTS = ('global', 'attr', 'closure', 'lambda', 'static', 'classm')
FN_NAMES = {1: 'f1', 2: 'ClsA', 3: 'ClsB', 4: 'g4'}
TAG_NAMES = ['T0', 'T1', 'T2']
ARGS = (11,)

HEADER = '''import functools
import fiddle as fdl
from fiddle import arg_factory
from fiddle.experimental import auto_config
from harness import heap as M
from harness.heap import f1, ClsA, ClsB, g4, T0, T1, T2
from harness.c11lib import ac1, ac2
'''


# ------------------------------------------------------------------ decompiler
def decompile(prog, variant, name):
  """Postfix program -> (source text of one decorated definition, uses control flow)."""
  q = {'global': '', 'attr': 'M.', 'closure': 'c_', 'lambda': '', 'static': '', 'classm': ''}[variant]
  fn = lambda f: q + FN_NAMES[f]
  tag = lambda i: ('M.' if variant == 'attr' else '') + TAG_NAMES[i]
  stack, stmts = [], []
  cf = False

  def call_args(ins, args):
    npos = ins['b']
    pos, kws = args[:npos], list(zip(ins['kw'], args[npos:]))
    if ins['sty'] == 'splat':
      parts = []
      if pos:
        parts.append('*[' + ', '.join(pos) + ']' if len(pos) % 2 else '*(' + ', '.join(pos) + ',)')
      if kws:
        parts.append('**{' + ', '.join(f"'s{k}': {e}" for k, e in kws) + '}')
      return ', '.join(parts)
    return ', '.join(pos + [f's{k}={e}' for k, e in kws])

  for ins in prog:
    op = ins['op']
    if op == 'lit':
      stack.append(str(ins['a']))
    elif op == 'par':
      stack.append(f"a{ins['a']}")
    elif op == 'fn':
      stack.append(fn(ins['a']))
    elif op == 'ld':
      stack.append(f"v{ins['a']}")
    elif op == 'st':
      stmts.append(f"v{ins['a']} = {stack.pop()}")
    elif op == 'ret':
      stmts.append(f'return {stack.pop()}')
    elif op == 'mk':
      n = ins['a']
      args = stack[len(stack) - n:] if n else []
      del stack[len(stack) - n:]
      k, via = ins['sty'], ins['b']
      if k == 'list':
        e = '[' + ', '.join(args) + ']'
        e = f'list({e})' if via else e
      elif k == 'tuple':
        e = '(' + ''.join(a + ', ' for a in args) + ')'
        e = f'tuple([{", ".join(args)}])' if via else e
      else:
        e = ('dict(' + ', '.join(f'k{j + 1}={a}' for j, a in enumerate(args)) + ')' if via else
             '{' + ', '.join(f"'k{j + 1}': {a}" for j, a in enumerate(args)) + '}')
      stack.append(e)
    elif op in ('call', 'part', 'ex'):
      n = ins['b'] + len(ins['kw'])
      args = stack[len(stack) - n:] if n else []
      del stack[len(stack) - n:]
      a = call_args(ins, args)
      if op == 'call':
        stack.append(f"{fn(ins['a'])}({a})")
      elif op == 'part':
        stack.append(f"functools.partial({fn(ins['a'])}{', ' if a else ''}{a})")
      else:
        stack.append(f"auto_config.exempt({fn(ins['a'])})({a})")
    elif op == 'repart':
      n = 1 + len(ins['kw'])
      args = stack[len(stack) - n:]
      del stack[len(stack) - n:]
      stack.append('functools.partial(' + args[0] + ', ' +
                   ', '.join(f's{k}={e}' for k, e in zip(ins['kw'], args[1:])) + ')')
    elif op == 'afp':
      n = len(ins['kw'])
      args = stack[len(stack) - n:]
      del stack[len(stack) - n:]
      stack.append(f"arg_factory.partial({fn(ins['a'])}, " +
                   ', '.join(f's{k}={e}' for k, e in zip(ins['kw'], args)) + ')')
    elif op == 'tag':
      e = stack.pop()
      bits = [i for i in range(3) if ins['a'] & (1 << i)]
      t = tag(bits[0]) if len(bits) == 1 and len(e) % 2 else '[' + ', '.join(tag(i) for i in bits) + ']'
      stack.append(f'auto_config.with_tags({e}, {t})')
    elif op == 'ac':
      e = stack.pop()
      g = 'ac1' if ins['a'] == 11 else 'ac2'
      stack.append(f'{g}(s1={e})' if ins['b'] else f'{g}({e})')
    elif op == 'ife':
      cf = True
      b = stack.pop()
      a = stack.pop()
      stack.append(f"({a} if a1 {'>' if ins['a'] == 1 else '<'} 0 else {b})")
    elif op == 'comp':
      cf = True
      e = stack.pop()
      stack.append(f"[{e} for _ in range({ins['a']})]")
    else:
      raise common.MachineryError(f'unknown instruction {op}')
  deco = ('auto_config.auto_config(experimental_allow_control_flow=True)' if cf
          else 'auto_config.auto_config')
  params = 'a1, a2=12, *, a3=13'
  if variant == 'lambda':
    if len(stmts) != 1:
      return None, cf
    body = stmts[0][len('return '):]
    call = f'{deco}(' if cf else 'auto_config.auto_config('
    return f'{name} = {call}lambda {params}: {body})\n', cf
  body = ''.join('  ' + s + '\n' for s in stmts)
  if variant in ('global', 'attr'):
    return f'@{deco}\ndef {name}({params}):\n{body}', cf
  ind = lambda text: ''.join('  ' + l + '\n' for l in text.splitlines())
  if variant == 'closure':
    inner = f'@{deco}\ndef {name}({params}):\n{body}'
    return (f'def _make_{name}():\n  c_f1, c_ClsA, c_ClsB, c_g4 = f1, ClsA, ClsB, g4\n' + ind(inner) +
            f'  return {name}\n{name} = _make_{name}()\n'), cf
  if variant == 'static':
    inner = f'@{deco}\n@staticmethod\ndef prog({params}):\n{body}'
    return f'class C_{name}:\n' + ind(inner) + f'{name} = C_{name}.prog\n', cf
  inner = f'@{deco}\n@classmethod\ndef prog(cls, {params}):\n{body}'
  return f'class C_{name}:\n' + ind(inner) + f'{name} = C_{name}.prog\n', cf


_MODS = 0


def load_module(text, wd):
  global _MODS
  _MODS += 1
  name = f'c11gen_{os.getpid()}_{_MODS}'
  path = os.path.join(wd, name + '.py')
  with open(path, 'w') as f:
    f.write(HEADER + text)
  spec = importlib.util.spec_from_file_location(name, path)
  mod = importlib.util.module_from_spec(spec)
  sys.modules[name] = mod
  spec.loader.exec_module(mod)
  return mod


# ------------------------------------------------------------------- projector
class P11(H.Projector):
  """Adds functools.partial / arg_factory.partial values, normalised by binding."""

  def __init__(self):
    super().__init__(callable_leaves=True)
    self.partials = []

  def _leaf_only(self, x):
    return isinstance(x, tuple) and not hasattr(x, '_fields') and all(
        (isinstance(v, int) and not isinstance(v, bool)) or self._leaf_only(v) or
        (callable(v) and H.fn_id_of(v) != -1 and not isinstance(v, functools.partial)) for v in x)

  def _partial_items(self, p):
    func, args, kws = p.func, p.args, dict(p.keywords)
    if af_lib.is_arg_factory_partial(p) and hasattr(func, 'func'):   # arg_factory.partial wraps the callable
      func = func.func
    fid = H.fn_id_of(func)
    params = [q for q in inspect.signature(func).parameters.values()
              if q.kind in (q.POSITIONAL_ONLY, q.POSITIONAL_OR_KEYWORD)]
    # positional values bind to the named positional parameters, the rest (to *args) keep their position
    bound = {(params[j].name if j < len(params) else j): a for j, a in enumerate(args)}
    bound.update(kws)
    items = []
    for nm in sorted(bound, key=lambda n: str(H._slot_of(n))):  # pylint: disable=protected-access
      v = bound[nm]
      if isinstance(v, af_lib.ArgFactory) or (type(v).__name__.endswith('ArgFactory') and hasattr(v, 'factory')):
        fac = v.factory
        idx = len(self.heap) + 1
        node = {'k': 'argfactory', 'fn': 0, 'items': []}
        self.heap.append(node)
        self.keep.append(v)
        if isinstance(fac, functools.partial):
          node['fn'], node['items'] = self._partial_items(fac)
        else:
          node['fn'] = H.fn_id_of(fac)
        val = -idx
      else:
        val = self.val(v)
      items.append({'key': H._slot_of(nm), 'val': val, 'tg': 0})  # pylint: disable=protected-access
    return fid, items

  def val(self, x):
    if isinstance(x, functools.partial):
      key = id(x)
      if key in self.ids:
        return -self.ids[key]
      idx = len(self.heap) + 1
      self.ids[key] = idx
      self.keep.append(x)
      self.partials.append(x)
      node = {'k': 'partial', 'fn': 0, 'items': []}
      self.heap.append(node)
      node['fn'], node['items'] = self._partial_items(x)
      return -idx
    if self._leaf_only(x):
      # immutable constants have no identity of their own (constant folding, interning)
      idx = len(self.heap) + 1
      self.keep.append(x)
      node = {'k': 'tuple', 'fn': 0, 'items': []}
      self.heap.append(node)
      for j, v in enumerate(x):
        node['items'].append({'key': j, 'val': self.val(v), 'tg': 0})
      return -idx
    return super().val(x)


def proj(x):
  p = P11()
  r = p.val(x)
  return p.heap, (r if r > 0 else -1), p.partials


def recanon(heap, root):
  """Canonical form of an abstract heap with leaf-only tuples given no identity."""
  if root > 0:
    return [], root
  out, ids = [], {}

  def leaf_only(i):
    o = heap[i - 1]
    return o['k'] == 'tuple' and all(it['val'] > 0 or leaf_only(-it['val']) for it in o['items'])

  def visit(i):
    lo = leaf_only(i)
    if not lo and i in ids:
      return -ids[i]
    idx = len(out) + 1
    if not lo:
      ids[i] = idx
    o = heap[i - 1]
    node = {'k': o['k'], 'fn': o['fn'], 'items': []}
    out.append(node)
    for it in o['items']:
      v = it['val']
      node['items'].append({'key': it['key'], 'val': v if v >= 0 else visit(-v), 'tg': it['tg']})
    return -idx

  visit(1)
  return out, -1


def probe(root, partials):
  """The structure together with two calls of every reachable partial, as one graph."""
  results = [root]
  for p in list(partials):
    results.append(p())
    results.append(p())
  h, _, _ = proj(results)
  return h


# --------------------------------------------------------------------- checker
def check_program(rec, fn, variant):
  """rec: TLC's prediction; fn: the decorated real function.  Returns mismatches."""
  mism = []
  ops = sorted({i['op'] for i in rec['prog']})
  base = {'variant': variant, 'ops': ','.join(ops)}

  def bad(clause, msg, **kw):
    mism.append((dict(base, clause=clause, **kw), msg))

  if not isinstance(fn, auto_config.AutoConfig):
    bad('not-decorated', f'{type(fn).__name__}')
    return mism
  exp_b, exp_broot = recanon(rec['b'], rec['broot'])
  exp_d, exp_droot = recanon(rec['d'], rec['droot'])
  # --- as_buildable: predicted graph, nothing configurable invoked
  pool.CALL_LOG.clear()
  cfg, err = None, None
  try:
    cfg = fn.as_buildable(*ARGS)
  except Exception as e:  # pylint: disable=broad-except
    err = e
  invoked = [i.fn_id for i in pool.CALL_LOG]
  if invoked != rec['inv']:
    bad('as_buildable-invokes-callables', f'invoked {invoked}, expected {rec["inv"]}')
  if not rec['cb']:
    if not isinstance(err, TypeError):
      bad('no-buildable-result-accepted', f'as_buildable gave {err!r} / {cfg!r} for a result without a Buildable')
  elif err is not None:
    bad('as_buildable-raises', f'{type(err).__name__}: {str(err)[:300]}', err=type(err).__name__)
  else:
    got_b, got_broot, _ = proj(cfg)
    if (got_b, got_broot) != (exp_b, exp_broot):
      bad('as_buildable-graph-differs', f'got {json.dumps(got_b)} expected {json.dumps(exp_b)}')
  # --- direct call: decorated == undecorated == predicted
  outs = {}
  for label, thunk in (('undecorated', lambda: inspect.unwrap(fn.func)(*ARGS) if False else fn.func(*ARGS)),
                       ('decorated', lambda: fn(*ARGS)),
                       ('built', (lambda: fdl.build(cfg)) if cfg is not None else None)):
    if thunk is None:
      continue
    try:
      outs[label] = thunk()
    except Exception as e:  # pylint: disable=broad-except
      bad(label + '-raises', f'{type(e).__name__}: {str(e)[:300]}', err=type(e).__name__)
  joint = {}
  for label, val in outs.items():
    h, r, partials = proj(val)
    if (h, r) != (exp_d, exp_droot):
      bad(label + '-graph-differs', f'got {json.dumps(h)} root {r} expected {json.dumps(exp_d)} root {exp_droot}')
    else:
      try:
        joint[label] = probe(val, partials)
      except Exception as e:  # pylint: disable=broad-except
        bad(label + '-partial-call-raises', f'{type(e).__name__}: {str(e)[:300]}', err=type(e).__name__)
  ref = joint.get('undecorated')
  for label, j in joint.items():
    if ref is not None and j != ref:
      bad(label + '-partials-behave-differently', f'{json.dumps(j)} vs {json.dumps(ref)}')
  # --- control flow needs the option
  if rec['cf']:
    try:
      auto_config.auto_config(fn.func.__func__ if hasattr(fn.func, '__func__') else fn.func)
      bad('control-flow-accepted-without-option', 'auto_config accepted control flow without the option')
    except auto_config.UnsupportedLanguageConstructError:
      pass
    except Exception as e:  # pylint: disable=broad-except
      bad('control-flow-check-raises', f'{type(e).__name__}: {str(e)[:200]}')
  return mism


CFG = {'wd': None, 'nvariants': 2, 'seed': 0}


def work(lines):
  wd, nvariants, seed = CFG['wd'], CFG['nvariants'], CFG['seed'] + len(lines[0])
  common.quiet_logging()
  rng = random.Random(seed)
  recs = [common.decode_line(l) for l in lines]
  stats = {'programs': len(recs), 'functions': 0, 'skipped_lambda': 0,
           'nontrivial': sum(1 for r in recs if len(r['b']) >= 2), 'ops': {}}
  for r in recs:
    for op in {i['op'] for i in r['prog']}:
      stats['ops'][op] = stats['ops'].get(op, 0) + 1
  sample = None
  jobs = []   # (rec, variant, name)
  for n, rec in enumerate(recs):
    vs = list(VARIANTS) if nvariants >= len(VARIANTS) else rng.sample(VARIANTS, nvariants)
    for v in vs:
      jobs.append((rec, v, f'prog_{n}_{v}'))
  mism = []
  # lambdas are located by parsing the whole module: small modules for them
  groups = {}
  for j in jobs:
    groups.setdefault('lambda' if j[1] == 'lambda' else 'def', []).append(j)
  for kind, js in groups.items():
    size = 12 if kind == 'lambda' else 400
    for at in range(0, len(js), size):
      part, text = [], ''
      for rec, v, name in js[at:at + size]:
        src, _ = decompile(rec['prog'], v, name)
        if src is None:
          stats['skipped_lambda'] += 1
          continue
        text += src + '\n'
        part.append((rec, v, name))
      try:
        mod = load_module(text, wd)
      except Exception as e:  # pylint: disable=broad-except
        # find the offending definition by loading them one at a time
        mod = None
        for rec, v, name in part:
          src, _ = decompile(rec['prog'], v, name)
          try:
            m1 = load_module(src, wd)
            for f, msg in check_program(rec, getattr(m1, name), v):
              mism.append((f, {'prog': rec['prog'], 'source': src, 'message': msg[:700]}))
            stats['functions'] += 1
          except Exception as e1:  # pylint: disable=broad-except
            mism.append(({'clause': 'decoration-raises', 'variant': v, 'err': type(e1).__name__,
                          'ops': ','.join(sorted({i['op'] for i in rec['prog']}))},
                         {'prog': rec['prog'], 'source': src, 'message': f'{type(e1).__name__}: {str(e1)[:300]}'}))
        continue
      for rec, v, name in part:
        stats['functions'] += 1
        if sample is None and len(rec['b']) >= 3 and v == 'closure':
          sample = {'prog': rec['prog'], 'source': decompile(rec['prog'], v, name)[0], 'as_buildable': rec['b'],
                    'direct': rec['d']}
        for f, msg in check_program(rec, getattr(mod, name), v):
          src, _ = decompile(rec['prog'], v, name)
          mism.append((f, {'prog': rec['prog'], 'source': src, 'message': msg[:700]}))
  return stats, mism, sample


BASE = dict(Ops={'lit', 'par', 'call', 'mk'}, Lits={1}, Params={1}, Fns={1, 2}, MaxArgs=2, Styles={'plain'},
            MkKinds={'list'}, Vias={0}, TagMasks={1}, AcKinds={11}, CompNs={2}, NVars=1, MaxLen=5,
            MaxStack=2, MaxHeap=4, ForceRetAt=99, EmitOn=True)

QUICK = [
    dict(BASE, Fns={1}),
    dict(BASE, Ops={'lit', 'call', 'part', 'repart', 'tag', 'mk'}, Fns={2}, MkKinds={'tuple'}, TagMasks={1, 5}, MaxArgs=1),
    dict(BASE, Ops={'fn', 'part', 'afp', 'call'}, Fns={4}, MaxArgs=1),
    dict(BASE, Ops={'lit', 'par', 'ex', 'ac', 'call', 'mk'}, Params={2, 3}, Fns={3}, AcKinds={11, 12},
         MkKinds={'dict'}, Vias={0, 1}, MaxArgs=1),
    dict(BASE, Ops={'lit', 'call', 'ife', 'comp', 'ex', 'tag'}, Fns={4}, MaxArgs=1, NVars=1),
    dict(BASE, Ops={'lit', 'par', 'call', 'part'}, Styles={'splat'}, Fns={3}, MaxLen=4),
    # sharing through local variables (needs six instructions at least)
    dict(BASE, Ops={'call', 'mk', 'tag'}, Fns={2}, MaxArgs=2, MaxLen=7, NVars=1, MkKinds={'list'}),
]
THOROUGH = [
    dict(BASE, MaxLen=6),
    dict(BASE, Ops={'lit', 'call', 'part', 'repart', 'tag', 'mk'}, Fns={2}, MkKinds={'tuple', 'dict'}, TagMasks={1, 5, 6}, MaxLen=6,
         MaxArgs=1),
    dict(BASE, Ops={'fn', 'lit', 'part', 'afp', 'call', 'repart'}, Fns={1, 4}, MaxArgs=2, MaxLen=5),
    dict(BASE, Ops={'lit', 'par', 'ex', 'ac', 'call', 'mk', 'tag'}, Params={2, 3}, Fns={3}, AcKinds={11, 12},
         MkKinds={'dict', 'list'}, Vias={0, 1}, MaxLen=5),
    dict(BASE, Ops={'lit', 'call', 'ife', 'comp', 'ex', 'tag', 'mk', 'ac'}, Fns={4}, MaxArgs=1, NVars=1, CompNs={0, 2}, MaxLen=6,
         MaxHeap=8),
    dict(BASE, Ops={'lit', 'par', 'call', 'part', 'ex'}, Styles={'plain', 'splat'}, Fns={3}, MaxLen=5),
    dict(BASE, Ops={'lit', 'call', 'mk', 'part', 'tag'}, NVars=2, MaxStack=3, MaxLen=6, Fns={2}, MaxArgs=2),
]
ALL_OPS = {'lit', 'par', 'fn', 'call', 'mk', 'part', 'repart', 'afp', 'ex', 'tag', 'ac', 'ife', 'comp'}
SIM = dict(BASE, Ops=ALL_OPS, Lits={1, 2}, Params={1, 2, 3}, Fns={1, 2, 3, 4}, MaxArgs=3, Styles={'plain', 'splat'},
           MkKinds={'list', 'tuple', 'dict'}, Vias={0, 1}, TagMasks={1, 2, 4, 5, 6}, AcKinds={11, 12}, CompNs={0, 1, 2, 3},
           NVars=3, MaxLen=16, MaxStack=4, MaxHeap=14, ForceRetAt=10)
ONLY = os.environ.get('C11_ONLY')


def run_config(v, n, consts, wd, totals, simulate=None, depth=None):
  disp = common.Dispatcher(work, chunk=150)
  r = common.run_tlc('MC_C11', common.cfg_text(consts, constraints=['Bounded'],
                                               invariants=['ModelTheorem', 'OnlyExemptInvoked', 'Emit'],
                                               properties=[] if simulate else ['HeapsGrow']),
                     workdir=os.path.join(wd, f'mc{n}'), on_json=disp, simulate=simulate, depth=depth,
                     seed_=common.seed() + n if simulate else None)
  common.require_tlc_ok(r, f'MC_C11 config {n}')
  before = totals.get('programs', 0)
  for stats, mism, sample in disp.results():
    if sample and len(v.samples if hasattr(v, 'samples') else []) < 3:
      v.sample(sample)
    for k, x in stats.items():
      if k == 'ops':
        for op, cnt in x.items():
          totals.setdefault('ops', {})[op] = totals.get('ops', {}).get(op, 0) + cnt
      else:
        totals[k] = totals.get(k, 0) + x
    for f, case in mism:
      v.mismatch(f, case)
  totals.setdefault('configs', []).append(
      {'config': n, 'ops': sorted(consts['Ops']), 'max_len': consts['MaxLen'], 'mode': 'simulate' if simulate else 'exhaustive',
       'programs': totals.get('programs', 0) - before, 'states': r.distinct, 'tlc_wall_s': round(r.wall_s, 1)})
  return r


def run_scenarios():
  """Hand-written functions (harness/c11scen.py), judged real against real."""
  from harness import c11scen  # pylint: disable=g-import-not-at-top
  out = []
  for name, fn, args, kwargs, exp_inv in c11scen.SCENARIOS:
    base = {'variant': 'scenario', 'ops': name}
    def bad(clause, msg, **kw):
      out.append((dict(base, clause=clause, **kw), msg))
    pool.CALL_LOG.clear()
    try:
      cfg = fn.as_buildable(*args, **kwargs)
    except Exception as e:  # pylint: disable=broad-except
      bad('as_buildable-raises', f'{type(e).__name__}: {str(e)[:300]}', err=type(e).__name__)
      continue
    invoked = [i.fn_id for i in pool.CALL_LOG]
    if invoked != exp_inv:
      bad('as_buildable-invokes-callables', f'invoked {invoked}, expected {exp_inv}')
    vals = {}
    und = fn.func
    for label, thunk in (('undecorated', lambda: und(*args, **kwargs)), ('decorated', lambda: fn(*args, **kwargs)),
                         ('built', lambda: fdl.build(cfg))):
      try:
        vals[label] = thunk()
      except Exception as e:  # pylint: disable=broad-except
        bad(label + '-raises', f'{type(e).__name__}: {str(e)[:300]}', err=type(e).__name__)
    graphs = {}
    for label, val in vals.items():
      h, r, partials = proj(val)
      try:
        graphs[label] = (h, r, probe(val, partials))
      except Exception as e:  # pylint: disable=broad-except
        bad(label + '-partial-call-raises', f'{type(e).__name__}: {str(e)[:300]}', err=type(e).__name__)
    ref = graphs.get('undecorated')
    for label, g in graphs.items():
      if ref is not None and g[:2] != ref[:2]:
        bad(label + '-graph-differs', f'{json.dumps(g[0])} vs {json.dumps(ref[0])}')
      elif ref is not None and g[2] != ref[2]:
        bad(label + '-partials-behave-differently', f'{json.dumps(g[2])} vs {json.dumps(ref[2])}')
  return out, len(c11scen.SCENARIOS)


def negative_controls(wd):
  """The model reaches tagged results and shared objects; the harness rejects corrupted predictions."""
  out = {}
  for inv, consts in (('NeverTaggedInResult', dict(QUICK[1], EmitOn=False, MaxLen=4)),
                      ('NeverShared', dict(QUICK[6], EmitOn=False))):
    r = common.run_tlc('MC_C11', common.cfg_text(consts, constraints=['Bounded'], invariants=[inv]),
                       workdir=os.path.join(wd, 'neg-' + inv))
    if r.violation != inv:
      raise common.MachineryError(f'negative control {inv} was not refuted by TLC: {r.errors[:2]}')
    out[inv] = 'refuted'
  # binding: a corrupted prediction must be reported
  I = lambda op, a=0, b=0, kw=(), sty='': {'op': op, 'a': a, 'b': b, 'kw': list(kw), 'sty': sty}
  prog = [I('lit', 1), I('call', 4, 0, [2], 'plain'), I('st', 1), I('ld', 1), I('ld', 1), I('mk', 2, 0, (), 'list'), I('ret')]
  cfg_obj = {'k': 'config', 'fn': 4, 'items': [{'key': 2, 'val': 1, 'tg': 0}]}
  lst = {'k': 'list', 'fn': 0, 'items': [{'key': 0, 'val': -2, 'tg': 0}, {'key': 1, 'val': -2, 'tg': 0}]}
  good = {'prog': prog, 'b': [lst, cfg_obj], 'broot': -1, 'd': [lst, dict(cfg_obj, k='inst')], 'droot': -1,
          'inv': [], 'cb': True, 'cf': False}
  src, _ = decompile(prog, 'global', 'negctl')
  fn = getattr(load_module(src, wd), 'negctl')
  if check_program(good, fn, 'global'):
    raise common.MachineryError(f'binding control: the correct prediction was rejected: {check_program(good, fn, "global")[:1]}')
  unshared = [{'k': 'list', 'fn': 0, 'items': [{'key': 0, 'val': -2, 'tg': 0}, {'key': 1, 'val': -3, 'tg': 0}]}, cfg_obj, cfg_obj]
  for label, bad in (('sharing', dict(good, b=unshared)), ('callable', dict(good, d=[lst, dict(cfg_obj, k='inst', fn=1)])),
                     ('invocation', dict(good, inv=[4])), ('no-buildable', dict(good, cb=False))):
    if not check_program(bad, fn, 'global'):
      raise common.MachineryError(f'binding control: corrupted prediction ({label}) was accepted')
    out['corrupted-' + label] = 'rejected'
  return out


def main():
  v = common.Verdict(PROP, 'translation_validation')
  quick = common.tier() == 'quick'
  totals = {}
  with common.scratch() as wd:
    CFG['wd'] = wd
    CFG['seed'] = common.seed()
    sys.path.insert(0, wd)
    states = trans = 0
    controls = negative_controls(wd)
    for n, consts in enumerate(QUICK if quick else THOROUGH):
      if ONLY and str(n) not in ONLY.split(','):
        continue
      r = run_config(v, n, consts, wd, totals)
      states += r.distinct
      trans += r.generated
    scen, nscen = run_scenarios()
    for f, msg in scen:
      v.mismatch(f, {'message': msg})
    if not ONLY or 'sim' in ONLY.split(','):
      CFG['nvariants'] = 3
      r = run_config(v, 99, SIM, wd, totals, simulate=f'num={40 if quick else 1500}', depth=18)
  v.coverage.update({
      'states': states, 'transitions': trans,
      'traces_validated_against_impl': totals.get('functions', 0),
      'evaluations': totals.get('functions', 0),
      'programs': totals.get('programs', 0), 'disagreements_checked': totals.get('functions', 0),
      'distinct_nontrivial': totals.get('nontrivial', 0),
      'rule': 'one program per finished TLC behaviour; each decompiled into 2 (exhaustive) or 3 (random walks) of 6 '
              'definition forms; non-trivial = the predicted as_buildable() graph has at least two objects',
      'negative_controls': controls, 'scenarios': nscen,
      'programs_containing_op': totals.get('ops', {}), 'configs': totals.get('configs', []),
      'exhaustive': True,
  })
  return v.finish()


if __name__ == '__main__':
  common.main_wrapper(main)
