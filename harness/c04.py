"""C04 — built Partial is functools.partial; ArgFactory arguments are fresh per call.

MC  : spec/MC_C04 (FdlGen + FdlPartial): all nestings in the bound x call
      sequences with overrides; laws FreshAcrossCalls, BuiltOnce, OverrideWins
      on the joint result graph.
S->C: each (heap, call sequence) is realised: fdl.build once, the calls in order;
      the results of all calls are projected JOINTLY (identity classes across
      calls) and compared with the specification's joint canonical graph.
C->S: random deeper nestings, recorded joint results judged by spec/Trace_C04.
Scenarios: Partial inside Partial, positional (*args) configured arguments,
      functools.partial reference behaviour.
"""
from __future__ import annotations

import functools
import json
import os
import random

import fiddle as fdl

from harness import common
from harness import heap as H
from harness import pool

PROP = 'C04'


def run_calls(hp, calls):
  root, _ = H.realize(hp)
  pool.CALL_LOG.clear()
  try:
    built = fdl.build(root)
  except Exception as e:  # pylint: disable=broad-except
    return 'raise-build:' + type(e).__name__, None, None
  n_build = len(pool.CALL_LOG)
  results = []
  for k, ov in enumerate(calls, start=1):
    try:
      results.append(built(**{H.slot_name(s): 50 + k for s in ov}))
    except Exception as e:  # pylint: disable=broad-except
      return f'raise-call{k}:' + type(e).__name__, None, None
  joint, _ = H.project(results)
  return 'ok', joint, n_build


def check_line(rec):
  out, joint, n_build = run_calls(rec['heap'], rec['calls'])
  shape = {'n_objs': len(rec['heap']), 'n_calls': len(rec['calls']),
           'kinds': ''.join(sorted({o['k'][0] for o in rec['heap']}))}
  if out != 'ok':
    return [(dict(shape, clause='raises', observed=out), out)]
  mism = []
  if joint != rec['joint']:
    mism.append((dict(shape, clause='joint-result'),
                 f'joint result {json.dumps(joint)} differs from spec {json.dumps(rec["joint"])}'))
  n_cfg = sum(1 for o in rec['heap'] if o['k'] == 'config')
  if n_build != n_cfg:
    mism.append((dict(shape, clause='build-time-invocations', observed=n_build, expected=n_cfg),
                 f'{n_build} callables invoked by fdl.build, {n_cfg} Configs'))
  return mism


def work(lines):
  stats = {'lines': 0, 'nontrivial': 0}
  mismatches = []
  sample = None
  for line in lines:
    rec = common.decode_line(line)
    stats['lines'] += 1
    for f, msg in check_line(rec):
      mismatches.append((f, {'heap': rec['heap'], 'calls': rec['calls'], 'message': msg[:700]}))
    if any(o['k'] == 'argfactory' for o in rec['heap']) and len(rec['calls']) >= 2:
      stats['nontrivial'] += 1
    if sample is None and len(rec['heap']) >= 3 and len(rec['calls']) == 2 and any(
        o['k'] == 'argfactory' for o in rec['heap']):
      sample = rec
  return stats, mismatches, sample


def random_heap04(rng, nobj):
  """Random bottom-up heap satisfying WellFormed04 (root Partial, single-use fresh objects)."""
  while True:
    heap = []
    fresh = []
    used_fresh = set()
    for i in range(1, nobj + 1):
      last = i == nobj
      k = 'partial' if last else rng.choice(['config', 'argfactory', 'argfactory', 'list', 'dict'])
      def val():
        if heap and rng.random() < 0.7:
          c = rng.randint(1, len(heap))
          if fresh[c - 1]:
            if k == 'config' or c in used_fresh:
              return rng.randint(1, 3)
            used_fresh.add(c)
          return -c
        return rng.randint(1, 3)
      if k in ('config', 'argfactory', 'partial'):
        slots = sorted(rng.sample([1, 2, 3], rng.randint(0, 3)))
        items = [{'key': s, 'val': val(), 'tg': 0} for s in slots]
        o = {'k': k, 'fn': {'config': rng.choice([1, 2]), 'argfactory': 4, 'partial': 1}[k], 'items': items}
      elif k == 'dict':
        keys = sorted(rng.sample([1, 2, 4], rng.randint(0, 2)))
        o = {'k': 'dict', 'fn': 0, 'items': [{'key': kk, 'val': val(), 'tg': 0} for kk in keys]}
      else:
        o = {'k': 'list', 'fn': 0, 'items': [{'key': j, 'val': val(), 'tg': 0}
                                             for j in range(rng.randint(0, 3))]}
      heap.append(o)
      fresh.append(k == 'argfactory' or (k in ('list', 'dict') and any(
          it['val'] < 0 and fresh[-it['val'] - 1] for it in o['items'])))
    r, _ = H.realize(heap, nobj)
    canon, _ = H.project(r)
    if len(canon) >= 2:
      return canon


def record_random(rng, n):
  recs = []
  for _ in range(n):
    hp = random_heap04(rng, rng.randint(2, 8))
    calls = [sorted(rng.sample([1, 2, 3], rng.choice([0, 0, 1, 2]))) for _ in range(rng.randint(1, 3))]
    out, joint, _ = run_calls(hp, calls)
    recs.append({'tid': len(recs) + 1, 'heap': hp, 'calls': calls, 'out': out.split(':')[0],
                 'joint': joint or []})
  return recs


def validate_random(v, recs, wd):
  os.makedirs(wd, exist_ok=True)
  path = os.path.join(wd, 'c04traces.json')
  with open(path, 'w') as f:
    json.dump(recs, f)
  verdicts = {}
  def on_json(line):
    r = common.decode_line(line)
    verdicts[r['tid']] = r
  res = common.run_tlc('Trace_C04', common.cfg_text({}, init='TInit', next_='TNext'),
                       workdir=os.path.join(wd, 'tr'), on_json=on_json, workers=1,
                       env={'TRACE_FILE': path})
  common.require_tlc_ok(res, 'Trace_C04')
  if len(verdicts) != len(recs):
    raise common.MachineryError(f'Trace_C04 judged {len(verdicts)} of {len(recs)} records')
  acc = 0
  for r in recs:
    vd = verdicts[r['tid']]
    if vd['ok']:
      acc += 1
    else:
      v.mismatch({'clause': 'trace-rejected', 'failed': vd['failed']},
                 {'heap': r['heap'], 'calls': r['calls'],
                  'message': f'{r["out"]}: joint {json.dumps(r["joint"])[:400]}'})
  return acc


def wide(a, b=2, *rest, k=0, **kw):
  return pool.Inst('wide', {'a': a, 'b': b, 'rest': rest, 'k': k, 'kw': kw})


def scenarios():
  out = []
  def probe(name, fn):
    try:
      r = fn()
    except Exception as e:  # pylint: disable=broad-except
      out.append(({'clause': 'scenario', 'scenario': name, 'observed': 'raise:' + type(e).__name__},
                  f'{name}: {type(e).__name__}: {str(e)[:150]}'))
      return
    if r is not True:
      out.append(({'clause': 'scenario', 'scenario': name, 'observed': 'wrong'}, f'{name}: {r}'))
  def args_of(x):
    return pool.inst_of(x).args
  def s_reference():
    shared = fdl.Config(H.g4, s1=1)
    p = fdl.build(fdl.Partial(H.f1, s1=shared, s2=[1, 2]))
    ref_obj = pool.inst_of(H.g4(s1=1))
    ref = functools.partial(H.f1, s1=ref_obj, s2=[1, 2])
    a, b = args_of(p()), args_of(p(s2=9, s3=8))
    ra, rb = args_of(ref()), args_of(ref(s2=9, s3=8))
    same = a['s1'] is b['s1'] and ra['s1'] is rb['s1']
    return (same and a['s2'] == ra['s2'] and b['s2'] == rb['s2'] == 9 and b['s3'] == rb['s3'] == 8
            and isinstance(p, functools.partial)) or f'{a} {b}'
  def s_partial_in_partial():
    inner = fdl.Partial(H.g4, s1=fdl.ArgFactory(H.f1, s1=1), s2=fdl.Config(H.ClsA))
    outer = fdl.Partial(H.f1, s1=inner, s2=fdl.ArgFactory(H.g4))
    p = fdl.build(outer)
    r1, r2 = args_of(p()), args_of(p())
    same_inner = r1['s1'] is r2['s1']
    i1, i2 = args_of(r1['s1']()), args_of(r1['s1']())
    return (same_inner and r1['s2'] is not r2['s2'] and i1['s1'] is not i2['s1']
            and i1['s2'] is i2['s2']) or 'inner partial / factories not as specified'
  def s_positional():
    p = fdl.build(fdl.Partial(wide, 1, 2, 3, fdl.ArgFactory(H.g4), k=5))
    r1, r2 = p(z=1).args, p(k=6).args
    ok = (r1['a'] == 1 and r1['b'] == 2 and r1['rest'][0] == 3 and r1['k'] == 5 and r2['k'] == 6
          and r1['kw'] == {'z': 1} and r1['rest'][1] is not r2['rest'][1])
    try:
      p(a=9)
      return 'keyword override of a positionally bound parameter was accepted'
    except TypeError:
      pass
    return ok or f'{r1} {r2}'
  def s_same_factory_twice_per_call():
    af = fdl.ArgFactory(H.g4)
    p = fdl.build(fdl.Partial(H.f1, s1=af, s2=af))
    r1, r2 = args_of(p()), args_of(p())
    ids = {id(r1['s1']), id(r1['s2']), id(r2['s1']), id(r2['s2'])}
    return (r1['s1'] is not r2['s1'] and r1['s2'] is not r2['s2'] and r1['s1'] is not r2['s2']
            ) or f'{len(ids)} distinct objects over two calls'
  def s_positional_container_with_factory():
    p = fdl.build(fdl.Partial(wide, [fdl.ArgFactory(H.g4), 1], 2, {'k1': fdl.ArgFactory(H.g4)}, (3,)))
    r1, r2 = p().args, p().args
    a1, a2 = r1['a'], r2['a']
    ok = (isinstance(a1, list) and pool.inst_of(a1[0]) is not None and a1 is not a2
          and a1[0] is not a2[0] and r1['rest'][0]['k1'] is not r2['rest'][0]['k1']
          and r1['rest'][1] is r2['rest'][1] and r1['b'] == 2)
    return ok or f'{r1}'
  def s_call_fails_then_works():
    state = {'n': 0}
    def flaky(s1=0):
      state['n'] += 1
      if state['n'] == 1:
        raise RuntimeError('first call fails')
      return pool.Inst(4, {'s1': s1})
    p = fdl.build(fdl.Partial(H.f1, s1=[fdl.ArgFactory(flaky)], s2={'k1': [fdl.ArgFactory(H.g4)]}))
    try:
      p()
      return 'the failing factory did not fail'
    except RuntimeError:
      pass
    r1, r2 = args_of(p()), args_of(p())
    return (r1['s1'][0] is not r2['s1'][0] and r1['s2']['k1'][0] is not r2['s2']['k1'][0]
            ) or 'calls after a failed call are not evaluated anew'
  def s_reentrant_call():
    box = {}
    def reenter(s1=0):
      if 'p' in box and not box.get('busy'):
        box['busy'] = True
        box['inner'] = box['p']()
        box['busy'] = False
      return pool.Inst(4, {'s1': s1})
    box['p'] = fdl.build(fdl.Partial(H.f1, s1=[fdl.ArgFactory(reenter)]))
    r = args_of(box['p']())
    return (args_of(box['inner'])['s1'][0] is not r['s1'][0]) or 're-entrant call shared a factory result'
  def s_interned_factory_results():
    # factories returning objects that exist already (0, None, a constant tuple): containers that hold no
    # factory are still passed through uncopied, call after call
    plain_list, plain_dict = [0, None, 'x'], {'k1': [0], 'k2': (0, None)}
    part = fdl.build(fdl.Partial(H.f1, s1=[fdl.ArgFactory(int), fdl.ArgFactory(lambda: None)],
                                 s2=plain_list, s3=plain_dict))
    a1, a2 = args_of(part()), args_of(part())
    ok = (a1['s2'] is a2['s2'] and a1['s3'] is a2['s3'] and a1['s3']['k1'] is a2['s3']['k1']
          and a1['s1'] is not a2['s1'] and a1['s1'] == [0, None])
    if not ok:
      return f's2 same: {a1["s2"] is a2["s2"]}, s3 same: {a1["s3"] is a2["s3"]}, s1 fresh: {a1["s1"] is not a2["s1"]}'
    # the same inside one argument: siblings of a factory that hold no factory themselves
    part = fdl.build(fdl.Partial(H.f1, s1=[fdl.ArgFactory(int), [0, 'x'], {'k1': [0], 'k2': (0, None)},
                                           fdl.ArgFactory(lambda: None), [None]]))
    b1, b2 = args_of(part())['s1'], args_of(part())['s1']
    ok = (b1 is not b2 and b1[1] is b2[1] and b1[2] is b2[2] and b1[2]['k1'] is b2[2]['k1'] and b1[4] is b2[4]
          and b1[0] == 0 and b1[3] is None)
    return ok or (f'siblings without a factory copied per call: list {b1[1] is b2[1]}, dict {b1[2] is b2[2]}, '
                  f'inner {b1[2]["k1"] is b2[2]["k1"]}, last {b1[4] is b2[4]}')
  def s_override_then_not():
    # the first call overrides a factory argument, later calls do not: they still get fresh values
    part = fdl.build(fdl.Partial(H.f1, s1=fdl.ArgFactory(list), s2=[fdl.ArgFactory(dict)]))
    a0 = args_of(part(s1='override', s2='override'))
    a1, a2 = args_of(part()), args_of(part())
    ok = (a0['s1'] == 'override' and a1['s1'] == [] and a2['s1'] == [] and a1['s1'] is not a2['s1']
          and a1['s2'] == [{}] and a1['s2'][0] is not a2['s2'][0])
    return ok or f'{a0} / {a1} / {a2}'
  def s_container_argument_order():
    # several keyword arguments, a container with a factory not in the last position
    part = fdl.build(fdl.Partial(H.f1, s1=[fdl.ArgFactory(lambda: 'first')], s2=(fdl.ArgFactory(lambda: 'second'),),
                                 s3={'k': fdl.ArgFactory(lambda: 'third')}))
    a = args_of(part())
    return (a['s1'] == ['first'] and a['s2'] == ('second',) and a['s3'] == {'k': 'third'}) or f'{a}'
  for name, fn in [('interned-factory-results', s_interned_factory_results),
                   ('override-then-not', s_override_then_not),
                   ('container-argument-order', s_container_argument_order),
                   ('positional-container-with-factory', s_positional_container_with_factory),
                   ('call-fails-then-works', s_call_fails_then_works), ('reentrant-call', s_reentrant_call),
                   ('functools-reference', s_reference), ('partial-in-partial', s_partial_in_partial),
                   ('positional-args', s_positional), ('same-factory-twice', s_same_factory_twice_per_call)]:
    probe(name, fn)
  return out, 10


def main():
  v = common.Verdict(PROP, 'model_checking')
  quick = common.tier() == 'quick'
  consts = dict(MaxObjs=4, MaxItems=2, NLeaves=1, NKeys=1, NSlots=2, NFns=1,
                KindSet={'config', 'partial', 'argfactory', 'list'}, TagChoices={0}, UnsetTagged=False,
                EmitOn=True, MaxCalls=2)
  if not quick:
    consts.update(KindSet={'config', 'partial', 'argfactory', 'list', 'dict', 'tuple'}, MaxCalls=3)
  with common.scratch() as wd:
    disp = common.Dispatcher(work, chunk=300)
    res = common.run_tlc('MC_C04', common.cfg_text(consts, constraints=['GenPrune'],
                                                   invariants=['Laws', 'Emit']),
                         workdir=os.path.join(wd, 'mc'), on_json=disp)
    common.require_tlc_ok(res, 'MC_C04')
    totals = {'lines': 0, 'nontrivial': 0}
    for stats, mism, sample in disp.results():
      for k in totals:
        totals[k] += stats[k]
      for f, case in mism:
        v.mismatch(f, case)
      if sample:
        v.sample(sample)
    rng = random.Random(common.seed() * 179424673 + 10)
    recs = record_random(rng, 400 if quick else 4000)
    cand = next((r for r in recs if r['out'] == 'ok' and len(r['calls']) >= 2
                 and any(o['k'] == 'argfactory' for o in r['heap'])), None)
    if cand:
      vneg = common.Verdict(PROP, 'model_checking')
      vneg.kf.entries = []
      # corrupt: pretend both calls returned the very same result object
      bad = dict(cand, tid=1)
      j = json.loads(json.dumps(cand['joint']))
      j[0]['items'] = [dict(it, val=j[0]['items'][0]['val']) for it in j[0]['items']]
      bad['joint'] = j
      if validate_random(vneg, [bad], os.path.join(wd, 'neg')):
        raise common.MachineryError('Trace_C04 accepted a joint result with merged calls')
    accepted = validate_random(v, recs, os.path.join(wd, 'c2s'))
    sc, nsc = scenarios()
    for f, msg in sc:
      v.mismatch(f, {'message': msg})
  v.coverage.update({
      'states': res.distinct, 'transitions': res.generated,
      'traces_validated_against_impl': totals['lines'] + len(recs),
      'evaluations': totals['lines'] + len(recs) + nsc, 'distinct_nontrivial': totals['nontrivial'],
      'rule': 'one case per (well-formed nesting from TLC, call sequence with overrides); non-trivial = an '
              'ArgFactory is present and at least two calls are made. C->S: random nestings of up to 8 objects, '
              '1-3 calls, judged by Trace_C04; 4 scenarios.',
      'c2s_records': len(recs), 'c2s_accepted': accepted, 'scenarios': nsc, 'model': res.as_dict(),
      'exhaustive': True,
  })
  v.assumptions += [
      'an ArgFactory (or a container holding one) has a single use: whether two uses within one call share '
      'the object is not stated; nested Partials are scenarios',
      'whether an overridden factory still runs is not observed',
  ]
  return v.finish()


if __name__ == '__main__':
  common.main_wrapper(main)
