"""C02 — one invocation per Buildable instance; built graph mirrors config graph.

MC  : spec/MC_C02 (FdlHeap + build phase): all complete heaps within the bound,
      every enabled order of Call; invariants ExactlyOnce, DepsFirst,
      MirrorsConfig, Progress.
S->C: every complete heap is realised and built by the real library: the
      invocation log must be a behaviour of Call (each Buildable once, after
      its dependencies), the result must equal the spec's built graph, and two
      separate builds must share no built object.
C->S: larger random heaps; the recorded invocation sequence and result are
      validated by spec/Trace_C02 (Call enabledness step by step).
"""
from __future__ import annotations

import json
import os
import random
import sys

import fiddle as fdl
from fiddle._src import daglish

from harness import common
from harness import heap as H
from harness import pool

PROP = 'C02'


def mutable_ids(value, acc=None, seen=None):
  """ids of every non-leaf object of a built structure."""
  acc = acc if acc is not None else {}
  if isinstance(value, (int, str, bool)) or value is None:
    return acc
  if id(value) in acc:
    return acc
  acc[id(value)] = value
  inst = pool.inst_of(value) if not isinstance(value, (list, tuple, dict)) else None
  if inst is not None:
    acc[id(inst)] = inst
    for v in inst.args.values():
      mutable_ids(v, acc)
  elif isinstance(value, (list, tuple)):
    for v in value:
      mutable_ids(v, acc)
  elif isinstance(value, dict):
    for v in value.values():
      mutable_ids(v, acc)
  return acc


def build_and_observe(root):
  """Builds; returns (out, projected result heap, call order as canonical ids)."""
  pool.CALL_LOG.clear()
  try:
    result = fdl.build(root)
  except Exception as e:  # pylint: disable=broad-except
    return 'raise:' + type(e).__name__, None, None, None
  log = list(pool.CALL_LOG)
  p = H.Projector()
  p.rootval = p.val(result)
  order = []
  for inst in log:
    # an Inst is projected through the object that carries it
    idx = None
    for obj in p.keep:
      if pool.inst_of(obj) is inst if not isinstance(obj, (list, tuple, dict)) else False:
        idx = p.ids[id(obj)]
        break
    order.append(idx if idx is not None else 0)
  return 'ok', p.heap, order, result


def check_heap(rec):
  """S->C for one emitted heap.  Returns list of (features, message)."""
  mism = []
  hp = rec['heap']
  root, _ = H.realize(hp)
  before, _ = H.project(root)
  out, built, order, result = build_and_observe(root)
  nb = sum(1 for b in rec['buildables'] if b)
  shape = {'n_objs': len(hp), 'n_buildables': nb,
           'shared': any(sum(1 for o in hp for it in o['items'] if it['val'] == -i) > 1
                         for i in range(1, len(hp) + 1))}
  def feat(clause, obs):
    return dict(shape, clause=clause, observed=obs)
  if rec['fails']:
    if out == 'ok':
      return [(feat('unset-tagged-value-built', 'ok'),
               'build succeeded although a reachable TaggedValue has no value')]
    after, _ = H.project(root)
    if after != before:
      return [(feat('config-mutated', out), 'failed build changed the configuration')]
    return []
  if out != 'ok':
    return [(feat('build-outcome', out), f'build failed: {out}')]
  if rec['builtroot'] > 0:
    if result != rec['builtroot']:
      mism.append((feat('result-leaf', 'ok'), f'built {result!r}, spec leaf {rec["builtroot"]}'))
    return mism
  if H.strip_tags(built) != rec['built']:
    mism.append((feat('result-graph', 'ok'),
                 f'built graph {json.dumps(built)} differs from spec {json.dumps(rec["built"])}'))
    return mism
  exp_buildables = [i + 1 for i, b in enumerate(rec['buildables']) if b]
  inv = {b: i + 1 for i, b in enumerate(rec['bindex']) if b}
  order = [inv.get(o, 0) for o in order]       # built numbering -> configuration numbering
  if sorted(order) != exp_buildables:
    mism.append((feat('exactly-once', 'ok'),
                 f'invocations {order}, expected each of {exp_buildables} exactly once'))
  else:
    done = set()
    for o in order:
      if not set(rec['deps'][o - 1]) <= done:
        mism.append((feat('deps-first', 'ok'),
                     f'{o} invoked before its dependencies {rec["deps"][o - 1]} (order {order})'))
        break
      done.add(o)
  after, _ = H.project(root)
  if after != before:
    mism.append((feat('config-mutated', 'ok'), 'build changed the configuration'))
  # separate builds share nothing
  out2, built2, _, result2 = build_and_observe(root)
  if out2 == 'ok':
    a, b = mutable_ids(result), mutable_ids(result2)
    common_ids = [type(a[i]).__name__ for i in a if i in b and not isinstance(a[i], tuple)]
    if common_ids:
      mism.append((feat('separate-builds-share', 'ok'),
                   f'two builds share objects of types {sorted(set(common_ids))}'))
    if built2 != built:
      mism.append((feat('second-build-differs', 'ok'), 'second build differs from first'))
  return mism


def work(lines):
  stats = {'lines': 0, 'nontrivial': 0}
  mismatches = []
  sample = None
  for line in lines:
    rec = common.decode_line(line)
    stats['lines'] += 1
    for f, msg in check_heap(rec):
      mismatches.append((f, {'heap': rec['heap'], 'message': msg}))
    if sum(1 for b in rec['buildables'] if b) >= 1 and len(rec['heap']) >= 2:
      stats['nontrivial'] += 1
    if sample is None and len(rec['heap']) >= 3:
      sample = {'heap': rec['heap'], 'expected_built': rec['built'], 'deps': rec['deps']}
  return stats, mismatches, sample


# ----------------------------------------------------------------------------
# C->S
# ----------------------------------------------------------------------------

def random_heap(rng, nobj, kinds=('config', 'config', 'list', 'tuple', 'dict', 'ntuple')):
  """Random bottom-up heap (not canonical); every object reachable from the last."""
  while True:
    heap = []
    for i in range(1, nobj + 1):
      k = rng.choice(kinds)
      def val():
        if heap and rng.random() < 0.65:
          return -rng.randint(1, len(heap))
        return rng.randint(1, 3)
      if k == 'config':
        slots = sorted(rng.sample([1, 2, 3], rng.randint(0, 3)))
        items = [{'key': s, 'val': val(), 'tg': 0} for s in slots]
        o = {'k': 'config', 'fn': rng.choice([1, 2, 3, 4]), 'items': items}
      elif k == 'ntuple':
        o = {'k': 'ntuple', 'fn': 0, 'items': [{'key': j, 'val': val(), 'tg': 0} for j in range(2)]}
      elif k == 'dict':
        keys = sorted(rng.sample([1, 2, 3, 4], rng.randint(0, 3)))
        o = {'k': 'dict', 'fn': 0, 'items': [{'key': kk, 'val': val(), 'tg': 0} for kk in keys]}
      else:
        n = rng.randint(0, 3)
        o = {'k': k, 'fn': 0, 'items': [{'key': j, 'val': val(), 'tg': 0} for j in range(n)]}
      heap.append(o)
    # keep only what the root reaches, no shared leaf-only tuples
    root = len(heap)
    r, _ = H.realize(heap, root)
    canon, _ = H.project(r)
    refc = {}
    for o in canon:
      for it in o['items']:
        if isinstance(it['val'], int) and it['val'] < 0:
          refc[-it['val']] = refc.get(-it['val'], 0) + 1
    bad = H.has_shared_internable(canon)
    n_empty = sum(1 for o in heap if o['k'] == 'tuple' and not o['items'])
    if not bad and n_empty <= 1 and len(canon) >= max(2, nobj // 2):
      return canon


def record_random(rng, n, maxobj):
  recs = []
  for tid in range(1, n + 1):
    hp = random_heap(rng, rng.randint(2, maxobj))
    root, _ = H.realize(hp)
    out, built, order, _ = build_and_observe(root)
    recs.append({'tid': tid, 'heap': H.strip_tags(hp), 'out': out,
                 'built': H.strip_tags(built) if built is not None else [],
                 'builtroot': 0, 'order': order or []})
  return recs


def validate_random(v, recs, wd):
  os.makedirs(wd, exist_ok=True)
  path = os.path.join(wd, 'c02traces.json')
  with open(path, 'w') as f:
    json.dump(recs, f)
  verdicts = {}
  def on_json(line):
    r = common.decode_line(line)
    verdicts[r['tid']] = r
  res = common.run_tlc('Trace_C02', common.cfg_text({}, init='TInit', next_='TNext'),
                       workdir=os.path.join(wd, 'tr'), on_json=on_json, workers=1,
                       env={'TRACE_FILE': path})
  common.require_tlc_ok(res, 'Trace_C02')
  if len(verdicts) != len(recs):
    raise common.MachineryError(f'Trace_C02 judged {len(verdicts)} of {len(recs)} records')
  acc = 0
  for r in recs:
    vd = verdicts[r['tid']]
    if vd['ok']:
      acc += 1
    else:
      v.mismatch({'clause': 'trace-rejected', 'failed': vd['failed'], 'observed': r['out']},
                 {'heap': r['heap'], 'message': f'order {r["order"]} built {r["built"]}: '
                                                f'rejected by Trace_C02 clause {vd["failed"]}'})
  return acc


# ----------------------------------------------------------------------------
# special scenarios from the quantifier: temporaries, depth
# ----------------------------------------------------------------------------

class Temp:
  """A user node type whose flatten creates temporaries (fresh lists)."""

  def __init__(self, rows):
    self.rows = rows


def _temp_flatten(t):
  # every call hands out brand-new list objects: ids can be recycled
  return tuple(list(r) for r in t.rows), None


def _temp_unflatten(values, _):
  # keeps the built children themselves (allocating nothing of the temporaries' type, so
  # that the temporaries' addresses are free again when the next node is flattened)
  return Temp(tuple(values))


def _temp_paths(t):
  return tuple(daglish.Index(i) for i in range(len(t.rows)))


def temporaries_scenario():
  """Node types whose flatten creates temporaries: a stale memo hit on a recycled
  id would give a later temporary the result of an earlier one."""
  try:
    daglish.register_node_traverser(Temp, flatten_fn=_temp_flatten,
                                    unflatten_fn=_temp_unflatten,
                                    path_elements_fn=_temp_paths)
  except Exception:  # already registered  # pylint: disable=broad-except
    pass
  mism = []
  for nrows in (2, 4, 8, 16):
    # (1) plain values, every temporary with different contents
    rows_a = [[100 * r + c for c in range(3)] for r in range(nrows)]
    rows_b = [[100 * r + c + 50 for c in range(3)] for r in range(nrows)]
    cfg = fdl.Config(H.f1, s1=Temp([[Temp(rows_a)], [Temp(rows_b)]]))
    res = fdl.build(cfg)
    inner = pool.inst_of(res).args['s1']
    got = [[list(r) for r in t.rows] for row in inner.rows for t in row]
    if got != [rows_a, rows_b]:
      mism.append(({'clause': 'temporaries', 'rows': nrows, 'observed': 'wrong-value'},
                   f'rows rebuilt as {got}'))
    # (2) many nodes, each with its own temporaries holding distinct Buildables
    groups = [Temp([[fdl.Config(H.g4, s1=1000 * g + 10 * r + c) for c in range(2)]
                    for r in range(nrows)]) for g in range(8)]
    root = fdl.Config(H.f1, s1=groups)
    pool.CALL_LOG.clear()
    res = fdl.build(root)
    ncalls = len(pool.CALL_LOG) - 1
    built = pool.inst_of(res).args['s1']
    vals = [[[pool.inst_of(x).args['s1'] for x in row] for row in t.rows] for t in built]
    exp = [[[1000 * g + 10 * r + c for c in range(2)] for r in range(nrows)] for g in range(8)]
    if ncalls != 16 * nrows or vals != exp:
      mism.append(({'clause': 'temporaries', 'rows': nrows, 'observed': 'buildables'},
                   f'{ncalls} invocations for {16 * nrows} Buildables; values in place: {vals == exp}'))
    # (3) the same Buildables reached through the temporaries of two nodes: one result each
    cfgs = [[fdl.Config(H.g4, s1=10 * r + c) for c in range(2)] for r in range(nrows)]
    root = fdl.Config(H.f1, s1=Temp(cfgs), s2=Temp(list(reversed(cfgs))))
    pool.CALL_LOG.clear()
    res = fdl.build(root)
    ncalls = len(pool.CALL_LOG) - 1
    args = pool.inst_of(res).args
    vals1 = [[pool.inst_of(x).args['s1'] for x in row] for row in args['s1'].rows]
    vals2 = [[pool.inst_of(x).args['s1'] for x in row] for row in args['s2'].rows]
    exp1 = [[10 * r + c for c in range(2)] for r in range(nrows)]
    if ncalls != 2 * nrows or vals1 != exp1 or vals2 != list(reversed(exp1)):
      mism.append(({'clause': 'temporaries', 'rows': nrows, 'observed': 'shared-buildables'},
                   f'{ncalls} invocations for {2 * nrows} Buildables; built {vals1} / {vals2}'))
    else:
      same = all(args['s1'].rows[r][c_] is args['s2'].rows[nrows - 1 - r][c_]
                 for r in range(nrows) for c_ in range(2))
      if not same:
        mism.append(({'clause': 'temporaries', 'rows': nrows, 'observed': 'sharing-lost'},
                     'the same Buildable reached through two temporaries gave two results'))
  return mism


def depth_scenario():
  """Chains up to the recursion budget build, or fail loudly (never wrongly)."""
  mism = []
  for depth in (50, 150, 300):
    cfg = fdl.Config(H.f1, s1=1)
    for _ in range(depth):
      cfg = fdl.Config(H.f1, s1=cfg)
    pool.CALL_LOG.clear()
    try:
      fdl.build(cfg)
    except RecursionError:
      continue
    if len(pool.CALL_LOG) != depth + 1:
      mism.append(({'clause': 'depth', 'depth': depth, 'observed': 'calls'},
                   f'{len(pool.CALL_LOG)} invocations for a chain of {depth + 1}'))
  # Buildables built before a branch that exhausts the recursion budget: whether the build then fails or
  # succeeds, nobody is invoked twice within the one fdl.build
  for depth in (150, 260, 400, 700):
    early = [fdl.Config(H.g4, s1=k) for k in range(3)]
    chain = fdl.Config(H.f1, s1=1)
    for _ in range(depth):
      chain = fdl.Config(H.f1, s1=chain)
    root = fdl.Config(H.f1, s1=early, s2=[early[0]], s3=chain)
    pool.CALL_LOG.clear()
    try:
      fdl.build(root)
      out = 'ok'
    except RecursionError:
      out = 'RecursionError'
    except Exception as e:  # pylint: disable=broad-except
      out = type(e).__name__
    seen = {}
    for i in pool.CALL_LOG:
      key = (i.fn_id, json.dumps(pool.proj_val(i.args.get('s1')) if not isinstance(i.args.get('s1'), pool.Inst) else 'inst'))
      seen[key] = seen.get(key, 0) + 1
    twice = {k: n for k, n in seen.items() if k[0] == 4 and n > 1}
    if twice or (out == 'ok' and len(pool.CALL_LOG) != depth + 5):
      mism.append(({'clause': 'depth-invoked-twice', 'depth': depth, 'observed': out},
                   f'build {out}: {len(pool.CALL_LOG)} invocations for {depth + 5} Buildables; repeated: {twice}'))
  return mism


def partial_scenario():
  """Partial instances are Buildables too: one result per instance, nothing shared between builds."""
  mism = []
  for nargs in (0, 1):
    kw = {'s1': 5} if nargs else {}
    p1, p2 = fdl.Partial(H.g4, **kw), fdl.Partial(H.g4, **kw)
    root = fdl.Config(H.f1, s1=[p1, p1, p2], s2=p2)
    a1 = pool.inst_of(fdl.build(root)).args
    a2 = pool.inst_of(fdl.build(root)).args
    l = a1['s1']
    probs = []
    if l[0] is not l[1] or a1['s2'] is not l[2]:
      probs.append('references to one Partial received different objects')
    if l[0] is l[2]:
      probs.append('two distinct Partial instances received the same object')
    if any(x is y for x in l for y in a2['s1']):
      probs.append('two separate builds share a built partial')
    if probs:
      mism.append(({'clause': 'partial-instances', 'bound_arguments': nargs}, '; '.join(probs)))
  return mism


def main():
  v = common.Verdict(PROP, 'model_checking')
  quick = common.tier() == 'quick'
  base = dict(MaxItems=2, NLeaves=1, NFns=1, NSlots=2, TagChoices={0}, UnsetTagged=False)
  gen = dict(base, MaxObjs=4, NKeys=2, KindSet={'config', 'list', 'tuple', 'dict'},
             WithBuild=False, EmitOn=True)
  # stand-alone TaggedValues inside containers (they build to their value)
  gen2 = dict(base, MaxObjs=4, NKeys=1, KindSet={'config', 'list', 'dict', 'tagged'},
              UnsetTagged=True, WithBuild=False, EmitOn=True)
  inter = dict(base, MaxObjs=3, NKeys=1, KindSet={'config', 'list', 'dict', 'tagged'},
               WithBuild=True, EmitOn=False)
  if not quick:
    gen = dict(gen, MaxObjs=5, KindSet={'config', 'list', 'dict', 'ntuple'}, NKeys=1)
    gen2 = dict(gen2, KindSet={'config', 'list', 'dict', 'tuple', 'tagged'}, NKeys=2)
    inter = dict(inter, MaxObjs=4)
  invs = ['ExactlyOnce', 'DepsFirst', 'MirrorsConfig', 'Progress', 'EmitHeap']
  with common.scratch() as wd:
    r1 = common.run_tlc('MC_C02', common.cfg_text(inter, constraints=['Prune'], invariants=invs),
                        workdir=os.path.join(wd, 'inter'))
    common.require_tlc_ok(r1, 'MC_C02/interleavings')
    totals = {'lines': 0, 'nontrivial': 0}
    r2 = None
    for nm, g in (('gen', gen), ('gen-tagged', gen2)):
      disp = common.Dispatcher(work, chunk=400)
      r = common.run_tlc('MC_C02', common.cfg_text(g, constraints=['Prune'], invariants=invs),
                         workdir=os.path.join(wd, nm), on_json=disp)
      common.require_tlc_ok(r, 'MC_C02/' + nm)
      for stats, mism, sample in disp.results():
        for k in totals:
          totals[k] += stats[k]
        for f, case in mism:
          v.mismatch(f, case)
        if sample:
          v.sample(sample)
      if r2 is None:
        r2 = r
      else:
        r2.distinct += r.distinct
        r2.generated += r.generated
        r2.lines += r.lines
    rng = random.Random(common.seed() * 15485863 + 2)
    recs = record_random(rng, 500 if quick else 5000, 9 if quick else 14)
    # binding demo: corrupt one record (swap the invocation order) -> must be rejected
    cand = next((r for r in recs if len(r['order']) >= 2 and r['out'] == 'ok'), None)
    if cand:
      bad = dict(cand, tid=1, order=list(reversed(cand['order'])))
      vneg = common.Verdict(PROP, 'model_checking')
      vneg.kf.entries = []
      if validate_random(vneg, [bad], os.path.join(wd, 'neg')) != 0:
        # a reversed order can be legal only if no dependencies exist
        root_deps = any(len(o['items']) for o in cand['heap'])
        if root_deps:
          raise common.MachineryError('Trace_C02 accepted a reversed invocation order')
    accepted = validate_random(v, recs, os.path.join(wd, 'c2s'))
    for f, msg in temporaries_scenario() + depth_scenario() + partial_scenario():
      v.mismatch(f, {'message': msg})
  v.coverage.update({
      'states': r1.distinct + r2.distinct, 'transitions': r1.generated + r2.generated,
      'traces_validated_against_impl': totals['lines'] + len(recs),
      'evaluations': totals['lines'] + len(recs),
      'distinct_nontrivial': totals['nontrivial'],
      'rule': 'S->C: one case per complete canonical heap generated by TLC (distinct by construction); '
              'non-trivial = at least one Buildable and two objects. C->S: random heaps of up to 9/14 '
              'objects, invocation order and result validated by Trace_C02.',
      'interleaving_model': r1.as_dict(), 'generation_model': r2.as_dict(),
      'c2s_records': len(recs), 'c2s_accepted': accepted,
      'scenarios': ['custom node type with temporaries (nested, 2..16 rows)',
                    'chains of depth 50/150/300'],
      'exhaustive': True, 'bounds': {k: (sorted(x) if isinstance(x, set) else x) for k, x in gen.items()},
  })
  v.assumptions += [
      'leaf-only tuples have value semantics (fiddle does not memoize internable values); the '
      'generator never shares them, C08 treats them explicitly',
      'identity of results is observed through first-visit numbering of the projected result',
  ]
  return v.finish()


if __name__ == '__main__':
  common.main_wrapper(main)
