"""C15 — select() hits exactly the matching nodes; replace keeps the rest intact.

MC  : spec/MC_C15 (FdlGen + FdlSelect): laws on every (heap, selection, op).
S->C: each line is replayed with the real fiddle.selectors API: yielded node
      identities, values from get(), post-heap after set / replace, identity
      of every non-matching Buildable before and after.
C->S: random larger DAGs, recorded operations judged by spec/Trace_C15.
"""
from __future__ import annotations

import json
import os
import random

import fiddle as fdl
from fiddle import selectors

from harness import common
from harness import heap as H
from harness import c02

PROP = 'C15'
BT = {'buildable': fdl.Buildable, 'config': fdl.Config, 'partial': fdl.Partial}


def selection(root, op):
  return selectors.select(root, H.fn_obj(op['fn']), match_subclasses=bool(op['sub']),
                          buildable_type=BT[op['bt']])


def do_op(root, op, p):
  name = op['name']
  try:
    sel = selection(root, op)
    if name == 'iter':
      nodes = list(sel)
      return 'ok', sorted(p.ids.get(id(n), 0) for n in nodes), len(nodes)
    if name == 'get':
      ms = {}
      for v in sel.get(H.slot_name(op['slot'])):
        k = v if isinstance(v, int) else -p.ids.get(id(v), 0)
        ms[str(k)] = ms.get(str(k), 0) + 1
      return 'ok', ms, None
    if name == 'set':
      sel.set(**{H.slot_name(op['slot']): op['val']})
      return 'ok', None, None
    if name in ('replace', 'replace_shared'):
      v = op['val'] if op['val'] > 0 else fdl.Config(H.g4)
      do_op.last_value = v
      sel.replace(v, deepcopy=(name == 'replace'))
      return 'ok', None, None
    raise ValueError(name)
  except Exception as e:  # pylint: disable=broad-except
    return 'raise:' + type(e).__name__, None, None


def _wrap(a, /, *rest):
  return ('wrap', a, rest)


def check_line(rec, wrapped=False):
  """wrapped: the same graph referenced from the positional-only cell, from a list in a variadic cell and
  from a variadic cell of a Buildable that matches no selection; the operation must act on it as specified."""
  hp, op = rec['heap'], rec['op']
  root, _ = H.realize(hp)
  p = H.Projector()
  p.val(root)
  if p.heap != hp:
    raise common.MachineryError(f'round trip: {hp} -> {p.heap}')
  pre_objs = list(p.keep)
  outer = fdl.Config(_wrap, root, [root], root) if wrapped else None
  out, ret, n = do_op(outer if wrapped else root, op, p)
  base = {'op': op['name'], 'sub': op['sub'], 'bt': op['bt'], 'fn': op['fn']}
  if wrapped:
    base['wrapped_positional'] = True
  def feat(clause, **kw):
    return dict(base, clause=clause, **kw)
  mism = []
  if wrapped and rec['out'] == 'raise':
    # the specification refuses to replace the root as such; under the wrapper the same node is an ordinary
    # matching node and every positional reference to it must be substituted
    if out != 'ok':
      return [(feat('outcome', expected='ok', observed=out), f'{op} under a wrapper: {out}')]
  elif out.split(':')[0] != rec['out']:
    return [(feat('outcome', expected=rec['out'], observed=out), f'{op}: {out}, spec {rec["out"]}')]
  if wrapped:
    refs = {'[0]': outer[0], '[1][0]': outer[1][0], '[2]': outer[2]}
    root_replaced = rec['out'] == 'raise' or (
        op['name'] in ('replace', 'replace_shared') and rec['keep'] and not rec['keep'][0])
    if root_replaced:
      v = do_op.last_value
      for label, got in refs.items():
        same = (got is v) if (op['name'] == 'replace_shared' or isinstance(v, int)) else (
            got is not v and isinstance(got, fdl.Config) and got == v)
        if not same:
          return [(feat('positional-reference-not-replaced'),
                   f'{op}: the reference at {label} of a positional cell still holds {got!r}')]
      return []
    for label, got in refs.items():
      if got is not root:
        return [(feat('positional-reference-lost'), f'{op}: the reference at {label} is another object')]
  q = H.Projector()
  q.val(root)
  if q.heap != rec['post']:
    mism.append((feat('post-state'), f'{op}: post {json.dumps(q.heap)} spec {json.dumps(rec["post"])}'))
    return mism
  if op['name'] == 'iter':
    if ret != rec['ret'] or n != len(rec['ret']):
      mism.append((feat('iter-nodes'), f'yielded nodes {ret} ({n}), spec {rec["ret"]}'))
  if op['name'] == 'get':
    exp = {str(p[0]): p[1] for p in rec['ret']}
    if ret != exp:
      mism.append((feat('get-values'), f'get yielded {ret}, spec {exp}'))
  if rec['out'] == 'ok':
    # identity frame: Buildables that remain must be the very same objects
    for o, pos in enumerate(rec['keep']):
      if pos and q.keep[pos - 1] is not pre_objs[o]:
        mism.append((feat('identity-lost'), f'Buildable {o + 1} was replaced by another object'))
        break
  return mism


def work(lines):
  stats = {'lines': 0, 'nontrivial': 0}
  mismatches = []
  sample = None
  for line in lines:
    rec = common.decode_line(line)
    stats['lines'] += 1
    for variant in (0, 1):
      # variant 1: callable 1 is a classmethod (equal, never identical, on each access)
      if variant == 1 and not any(o['fn'] == 1 for o in rec['heap']):
        continue
      H.FN_VARIANT = variant
      try:
        for f, msg in check_line(rec):
          mismatches.append((dict(f, callable_variant=variant),
                             {'heap': rec['heap'], 'op': rec['op'], 'message': msg[:700]}))
        # (a refusal may concern the root as such; under the wrapper the graph is no root: only accepted cases transfer)
        root_match_refused = (rec['out'] == 'raise' and rec['op']['name'] in ('replace', 'replace_shared')
                              and rec['heap'][0]['k'] in ('config', 'partial'))
        if root_match_refused:
          r0, _ = H.realize(rec['heap'])
          root_match_refused = any(n is r0 for n in selection(r0, rec['op']))
        if variant == 0 and (rec['out'] == 'ok' or root_match_refused):
          for f, msg in check_line(rec, wrapped=True):
            mismatches.append((dict(f, callable_variant=variant),
                               {'heap': rec['heap'], 'op': rec['op'], 'message': msg[:700]}))
      finally:
        H.FN_VARIANT = 0
    if rec['post'] != rec['heap'] or rec['ret']:
      stats['nontrivial'] += 1
    if sample is None and rec['op']['name'] == 'replace' and rec['post'] != rec['heap']:
      sample = {k: rec[k] for k in ('heap', 'op', 'post')}
  return stats, mismatches, sample


def record_random(rng, n):
  recs = []
  for _ in range(n):
    hp = c02.random_heap(rng, rng.randint(2, 9), kinds=('config', 'config', 'config', 'list', 'dict', 'tuple'))
    for o in hp:
      if o['k'] == 'config':
        o['fn'] = rng.choice([1, 2, 3])
        if rng.random() < 0.25:
          o['k'] = 'partial'
    root, _ = H.realize(hp)
    p = H.Projector()
    p.val(root)
    hp = p.heap
    if hp[0]['k'] not in ('config', 'partial'):
      continue
    op = {'name': rng.choice(['iter', 'get', 'set', 'replace', 'replace_shared']),
          'fn': rng.choice([1, 2, 3]), 'sub': rng.random() < 0.5,
          'bt': rng.choice(['buildable', 'config', 'partial']), 'slot': rng.randint(1, 3),
          'val': rng.choice([8, -1])}
    if op['name'] == 'set':
      op['val'] = 8
    if op['name'] == 'replace_shared':
      op['val'] = -1
    pre = list(p.keep)
    out, ret, _ = do_op(root, op, p)
    q = H.Projector()
    q.val(root)
    r = {'tid': len(recs) + 1, 'heap': hp, 'op': op, 'out': out.split(':')[0], 'post': q.heap,
         'nodes': ret if op['name'] == 'iter' and ret else [],
         'vals': sorted([int(k), c] for k, c in ret.items()) if op['name'] == 'get' and ret else []}
    recs.append(r)
  return recs


def validate_random(v, recs, wd):
  os.makedirs(wd, exist_ok=True)
  path = os.path.join(wd, 'c15traces.json')
  with open(path, 'w') as f:
    json.dump(recs, f)
  verdicts = {}
  def on_json(line):
    r = common.decode_line(line)
    verdicts[r['tid']] = r
  res = common.run_tlc('Trace_C15', common.cfg_text({}, init='TInit', next_='TNext'),
                       workdir=os.path.join(wd, 'tr'), on_json=on_json, workers=1,
                       env={'TRACE_FILE': path})
  common.require_tlc_ok(res, 'Trace_C15')
  if len(verdicts) != len(recs):
    raise common.MachineryError(f'Trace_C15 judged {len(verdicts)} of {len(recs)} records')
  acc = 0
  for r in recs:
    vd = verdicts[r['tid']]
    if vd['ok']:
      acc += 1
    else:
      v.mismatch({'clause': 'trace-rejected', 'failed': vd['failed'], 'op': r['op']['name']},
                 {'heap': r['heap'], 'op': r['op'],
                  'message': f'observed {r["out"]} post={json.dumps(r["post"])[:300]} rejected: {vd["failed"]}'})
  return acc


import abc as _abc


class _AbstractLayer(_abc.ABC):
  def __init__(self, s1=0, s2=0, s3=0):
    self.args = (s1, s2, s3)


class _Dense(_AbstractLayer):
  pass


def scenarios():
  """set() whose payload matches the selection or detaches selected nodes; class hierarchies with a
  metaclass."""
  from fiddle import selectors as sel  # pylint: disable=g-import-not-at-top
  out = []
  def probe(name, fn):
    try:
      r = fn()
    except Exception as e:  # pylint: disable=broad-except
      out.append(({'clause': 'scenario', 'scenario': name, 'observed': 'raise:' + type(e).__name__},
                  f'{name}: {type(e).__name__}: {str(e)[:200]}'))
      return
    if r is not True:
      out.append(({'clause': 'scenario', 'scenario': name, 'observed': 'wrong'}, f'{name}: {r}'))
  def s_payload_matches():
    # every node selected before the call gets the value; the payload itself is not edited
    inner = fdl.Config(H.ClsA, s1=1)
    root = fdl.Config(H.f1, s1=fdl.Config(H.ClsA, s1=inner), s2=[inner])
    payload = fdl.Config(H.ClsB, s1=9)            # ClsB is a subclass of ClsA: it matches too
    before = [n for n in sel.select(root, H.ClsA)]
    sel.select(root, H.ClsA).set(s3=payload)
    ok = all(n.s3 is payload for n in before) and 's3' not in payload.__arguments__ and len(before) == 2
    return ok or f'selected {len(before)}; s3 set on {[n.s3 is payload for n in before]}; payload {payload.__arguments__}'
  def s_detaching_assignment():
    leaf = fdl.Config(H.ClsA, s1=1)
    mid = fdl.Config(H.ClsA, s1=leaf, s2=2)
    root = fdl.Config(H.f1, s1=mid)
    before = list(sel.select(root, H.ClsA))
    sel.select(root, H.ClsA).set(s1=None, s2=7)     # overwrites the argument that holds a nested match
    return all(n.s2 == 7 and n.s1 is None for n in before) or f'{[(n.s1, n.s2) for n in before]}'
  def s_metaclass_hierarchy():
    root = fdl.Config(H.f1, s1=fdl.Config(_Dense, s1=1), s2=[fdl.Config(_AbstractLayer, s1=2)])
    got = sorted(n.s1 for n in sel.select(root, _AbstractLayer))
    exact = sorted(n.s1 for n in sel.select(root, _AbstractLayer, match_subclasses=False))
    sel.select(root, _AbstractLayer).set(s2=5)
    return (got == [1, 2] and exact == [2] and root.s1.s2 == 5 and root.s2[0].s2 == 5) or f'{got} / {exact}'
  probe('set-payload-matches-selection', s_payload_matches)
  probe('set-detaches-nested-matches', s_detaching_assignment)
  probe('metaclass-hierarchy', s_metaclass_hierarchy)
  return out


def main():
  v = common.Verdict(PROP, 'model_checking')
  quick = common.tier() == 'quick'
  base = dict(MaxItems=2, NLeaves=1, NKeys=1, NSlots=2, NFns=3, TagChoices={0}, UnsetTagged=False,
              EmitOn=True)
  if quick:
    runs = [dict(base, MaxObjs=2, KindSet={'config', 'partial', 'list', 'dict'}, OpMode='full'),
            dict(base, MaxObjs=3, KindSet={'config', 'list'}, OpMode='lean')]
  else:
    runs = [dict(base, MaxObjs=3, KindSet={'config', 'partial', 'list', 'dict', 'tuple'}, OpMode='full')]
  with common.scratch() as wd:
    disp = common.Dispatcher(work, chunk=500)
    res = None
    for n, consts in enumerate(runs):
      r = common.run_tlc('MC_C15', common.cfg_text(consts, constraints=['GenPrune'],
                                                   invariants=['Laws', 'Emit']),
                         workdir=os.path.join(wd, f'mc{n}'), on_json=disp)
      common.require_tlc_ok(r, 'MC_C15')
      if res is None:
        res = r
      else:
        res.distinct += r.distinct
        res.generated += r.generated
        res.lines += r.lines
    totals = {'lines': 0, 'nontrivial': 0}
    for stats, mism, sample in disp.results():
      for k in totals:
        totals[k] += stats[k]
      for f, case in mism:
        v.mismatch(f, case)
      if sample:
        v.sample(sample)
    rng = random.Random(common.seed() * 86028121 + 6)
    recs = record_random(rng, 500 if quick else 5000)
    cand = next((r for r in recs if r['op']['name'] == 'set' and r['post'] != r['heap']), None)
    if cand:
      vneg = common.Verdict(PROP, 'model_checking')
      vneg.kf.entries = []
      if validate_random(vneg, [dict(cand, tid=1, post=cand['heap'])], os.path.join(wd, 'neg')):
        raise common.MachineryError('Trace_C15 accepted a set() that changed nothing')
    accepted = validate_random(v, recs, os.path.join(wd, 'c2s'))
    for f, msg in scenarios():
      v.mismatch(f, {'message': msg})
  v.coverage.update({
      'states': res.distinct, 'transitions': res.generated,
      'traces_validated_against_impl': totals['lines'] + len(recs),
      'evaluations': totals['lines'] + len(recs), 'distinct_nontrivial': totals['nontrivial'],
      'rule': 'one case per (complete heap over functions and the class hierarchy A > B, selection of 18, '
              'operation of 6); non-trivial = the operation changes the heap or yields something',
      'c2s_records': len(recs), 'c2s_accepted': accepted, 'model': res.as_dict(), 'exhaustive': True,
  })
  v.assumptions += ['containers (lists, dicts, tuples) that hold a replaced reference may be rebuilt; only '
                    'non-matching Buildables are required to keep their identity']
  return v.finish()


if __name__ == '__main__':
  common.main_wrapper(main)
