"""X03 (extended coverage, not one of the listed properties) — DictConfig / NamespaceConfig as the
`(**kwargs)`-only instance of the argument store.

MC  : spec/MC_C03 (FdlStore) with the single-parameter signatures; the lines whose signature is
      `(**kwargs)` are the specification of fdl.experimental.DictConfig / NamespaceConfig: every
      constructor call and every sequence of <= 3 (thorough 4) attribute / index / report
      operations, with the laws asserted by MC_C03 on each transition.
S->C: each transition is replayed on a real DictConfig and a real NamespaceConfig (outcome, value
      read, store afterwards, cfg[:], ordered_arguments); the built dict / namespace holds exactly
      the store's entries; and the post-state, tagged, goes through every copy codec, the JSON
      codec and the identity traversals (store, tags, ==, build, independence -- the laws of
      harness/storecodec.py used by C07 / C09 / C14 on fdl.Config).
Findings of this check are observations outside the listed properties (extended_findings.json).
"""
from __future__ import annotations

import os
import types

import fiddle as fdl
from fiddle import daglish
from fiddle._src.experimental import dict_config
from fiddle._src.experimental import namespace_config

from harness import common
from harness import pool
from harness import store
from harness import storecodec
from harness import c03

PROP = 'X03'
VK_SIG = [{'k': 'VK', 'd': False}]
CLASSES = {'DictConfig': dict_config.DictConfig, 'NamespaceConfig': namespace_config.NamespaceConfig}
_ORIG_CONSTRUCT = store.construct


def _ident(value, state):
  return state.map_children(value)


CODECS = dict(storecodec.COPY_CODECS)
del CODECS['cast-there-and-back']       # cast to Partial changes the class: not a law of these classes
CODECS.update(storecodec.JSON_CODECS)
CODECS['identity-memoized-traversal'] = lambda c: daglish.MemoizedTraversal.run(_ident, c)
CODECS['identity-basic-traversal'] = lambda c: daglish.BasicTraversal.run(_ident, c)


def realise(cls, rec):
  fn = pool.get_fn(VK_SIG, 'function')
  bt = lambda _fn, *a, **k: cls(*a, **k)
  cfg = _ORIG_CONSTRUCT(fn, VK_SIG, rec['pre'][0]['op'], buildable_type=bt)
  for st in rec['pre'][1:] + [{'op': rec['op']}]:
    store.do_op(cfg, VK_SIG, st['op'])
  return cfg


def expected_built(S):
  return {pool.pname(101 + j): pool.LEAVES[v] for j, v in enumerate(S['ex'][1:]) if v}


def work(lines):
  common.quiet_logging()
  storecodec._importable(VK_SIG)  # registers the leaves as serialisable constants  # pylint: disable=protected-access
  stats = {'lines': 0, 'replayed': 0, 'nontrivial': 0, 'round_trips': 0, 'dead': 0}
  mism = []
  sample = None
  for line in lines:
    rec = common.decode_line(line)
    if rec['sig'] != VK_SIG:
      continue
    stats['lines'] += 1
    for cname, cls in CLASSES.items():
      store.construct = lambda fn, sig, op, buildable_type=None, _c=cls: _ORIG_CONSTRUCT(
          fn, sig, op, buildable_type=lambda _fn, *a, **k: _c(*a, **k))
      try:
        status, ms = c03.replay_line(rec, 'function')
      finally:
        store.construct = _ORIG_CONSTRUCT
      case = {'class': cname, 'program': [s['op'] for s in rec['pre']] + [rec['op']]}
      for f, msg in ms:
        mism.append((dict(f, cls=cname), dict(case, message=msg)))
      if status == 'dead':
        stats['dead'] += 1
        continue
      stats['replayed'] += 1
      if ms:
        continue
      post = rec['post'] if rec['out'] == 'ok' else rec['pre'][-1]['S']
      cfg = realise(cls, rec)
      if not store.state_eq(store.project(cfg, VK_SIG), post):
        continue            # (already reported by the replay above)
      if rec['out'] == 'ok' and rec['op']['name'] in ('setattr', 'delattr'):
        stats['nontrivial'] += 1
      # the built value holds exactly the store's entries
      try:
        built = fdl.build(cfg)
        got = dict(built) if isinstance(built, dict) else dict(vars(built))
        want_type = dict if cname == 'DictConfig' else types.SimpleNamespace
        exp = expected_built(post)
        if type(built) is not want_type or set(got) != set(exp) or any(got[k] is not exp[k] for k in exp):
          mism.append(({'clause': 'built-value', 'cls': cname}, dict(case, message=f'built {built!r}, expected {exp!r}')))
      except Exception as e:  # pylint: disable=broad-except
        mism.append(({'clause': 'build-raises', 'cls': cname}, dict(case, message=f'{type(e).__name__}: {e}')))
      # codec laws on the tagged post-state
      storecodec.apply_tags(cfg, VK_SIG, post)
      stats['round_trips'] += len(CODECS)
      for f, c in storecodec.check_cfg(cfg, VK_SIG, post, CODECS, False, None):
        mism.append((dict(f, cls=cname), dict(c, **case)))
      for name, codec in CODECS.items():
        try:
          c2 = codec(cfg)
        except Exception:  # pylint: disable=broad-except
          continue          # (reported by check_cfg)
        if type(c2) is not cls:
          mism.append(({'clause': 'class-changed', 'codec': name, 'cls': cname},
                       dict(case, message=f'{name} returned a {type(c2).__name__}')))
      if sample is None and rec['out'] == 'ok' and rec['op']['name'] == 'delattr' and cname == 'DictConfig':
        sample = {'class': cname, 'program': case['program'], 'post': post}
  return stats, mism, sample


def main():
  v = common.Verdict(PROP, 'model_checking')
  v.kf = common.KnownFindings(os.path.join(common.VERIF, 'extended_findings.json'))
  quick = common.tier() == 'quick'
  consts = dict(MaxParams=1, MaxVa=1, MaxOps=3 if quick else 4, SigMode=0, KwMode=1,
                Groups={'item', 'attr', 'report'}, SliceMode=3, EmitOn=True)
  totals = {}
  with common.scratch() as wd:
    disp = common.Dispatcher(work, chunk=400)
    res = common.run_tlc('MC_C03', common.cfg_text(consts, view='AbsView', constraints=['Bound'],
                                                   invariants=['TypeOK']),
                         workdir=os.path.join(wd, 'mc'), on_json=disp)
    common.require_tlc_ok(res, 'MC_C03 (single-parameter signatures)')
    for stats, mism, sample in disp.results():
      for k, x in stats.items():
        totals[k] = totals.get(k, 0) + x
      for f, case in mism:
        v.mismatch(f, case)
      if sample:
        v.sample(sample)
  if not totals.get('nontrivial'):
    raise common.MachineryError('no (**kwargs) transition was replayed')
  v.coverage.update({
      'states': res.distinct, 'transitions': res.generated,
      'traces_validated_against_impl': totals['replayed'], 'evaluations': totals['replayed'] + totals['round_trips'],
      'distinct_nontrivial': totals['nontrivial'], 'codec_round_trips': totals['round_trips'],
      'dead_after_prefix_divergence': totals['dead'],
      'vk_transitions': totals['lines'], 'classes': sorted(CLASSES), 'codecs': sorted(CODECS),
      'rule': 'one case per MC_C03 transition whose signature is (**kwargs), replayed on each class; '
              'non-trivial = an accepted attribute assignment or deletion',
      'exhaustive': True, 'bounds': {k: (sorted(x) if isinstance(x, set) else x) for k, x in consts.items()},
  })
  v.assumptions += ['extended coverage: not one of the listed properties; findings are observations']
  return v.finish()


if __name__ == '__main__':
  common.main_wrapper(main)
