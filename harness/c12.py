"""C12 — generated Python code reproduces the configuration.

MC  : spec/MC_Heaps generates every configuration in the bound (Partials, tags,
      shared nodes and shared containers, tuples, dicts).
Judge: for each configuration x generator (plain fdl.Config code / auto_config
      code) x options (sub-fixture subsets, expression-complexity thresholds,
      history comments) the emitted module is compiled and executed, the fixture
      is called (as_buildable for the auto_config flavour) and the resulting
      configuration is projected; spec/Trace_C12 judges each program (FdlCodegen).
Exploration (labelled): the value clause -- eval of the expression emitted for a
      Python value gives an equal value of the same type.
"""
from __future__ import annotations

import collections
import enum
import itertools
import json
import linecache
import math
import os
import random

import fiddle as fdl
from fiddle import daglish
from fiddle._src.codegen import new_codegen
from fiddle._src.codegen import py_val_to_cst_converter
from fiddle._src.codegen.auto_config import experimental_top_level_api as ac_api

from harness import common
from harness import heap as H
from harness import c02
from harness import c09

PROP = 'C12'
_counter = itertools.count()


def run_module(code):
  """Compiles and executes module text so that inspect.getsource works on it."""
  name = f'<c12-generated-{next(_counter)}>'
  linecache.cache[name] = (len(code), None, code.splitlines(True), name)
  ns = {'__name__': 'c12_generated'}
  exec(compile(code, name, 'exec'), ns)  # pylint: disable=exec-used
  return ns


def buildable_children(root):
  out = []
  for v, p in daglish.iterate(root):
    if isinstance(v, fdl.Buildable) and v is not root and not isinstance(v, fdl.ArgFactory):
      out.append(v)
  return out


def option_sets(root, quick, rot):
  kids = buildable_children(root)
  subs = [None]
  if kids:
    subs.append({'sub_a': kids[rot % len(kids)]})
    if len(kids) >= 2:
      subs.append({'sub_a': kids[0], 'sub_b': kids[-1]})
  if not quick:
    for r in (1, 2):
      for combo in itertools.combinations(range(len(kids)), r):
        subs.append({f'sub_{i}': kids[i] for i in combo})
  opts = []
  for sf in subs:
    for cx in ((None, 1) if quick else (None, 0, 1, 2, 3)):
      for hist in ((False,) if quick else (False, True)):
        opts.append({'sub_fixtures': sf, 'max_expression_complexity': cx, 'include_history': hist})
  if quick:
    opts.append({'sub_fixtures': None, 'max_expression_complexity': 0, 'include_history': True})
  return opts


def one(hp, gen_name, opts):
  root, _ = H.realize(hp)
  gen = new_codegen.new_codegen if gen_name == 'new' else ac_api.auto_config_codegen
  # sub-fixture objects must come from THIS realisation
  sf = None
  if opts['sub_fixtures']:
    kids = buildable_children(root)
    sf = {}
    for name, idx in opts['sub_fixtures'].items():
      if idx < len(kids):
        sf[name] = kids[idx]
  # is a sub-fixture's own root referenced more than once?  (positions in the canonical heap:
  # daglish.iterate visits in first-visit depth-first order, which is the canonical numbering)
  root_shared = False
  if opts['sub_fixtures']:
    idxs = [i for i in range(2, len(hp) + 1) if hp[i - 1]['k'] in ('config', 'partial', 'tagged')]
    if len(idxs) != len(kids):
      raise common.MachineryError('sub-fixture candidates do not line up with the abstract heap')
    refc = collections.Counter(-it['val'] for o in hp for it in o['items'] if it['val'] < 0)
    root_shared = any(refc[idxs[j]] > 1 for j in opts['sub_fixtures'].values() if j < len(idxs))
  rec = {'tid': 0, 'heap': hp, 'gen': gen_name, 'sub_root_shared': root_shared,
         'opts': {'sub': sorted(opts['sub_fixtures'].values()) if opts['sub_fixtures'] else [],
                  'cx': -1 if opts['max_expression_complexity'] is None else opts['max_expression_complexity'],
                  'hist': opts['include_history']},
         'out': 'rejected', 'result': [], 'code': '', 'err': ''}
  try:
    code = gen(root, sub_fixtures=sf, max_expression_complexity=opts['max_expression_complexity'],
               include_history=opts['include_history'])
  except Exception as e:  # pylint: disable=broad-except
    rec['err'] = f'{type(e).__name__}: {str(e)[:150]}'
    return rec
  rec['code'] = code
  try:
    ns = run_module(code)
    fx = ns['config_fixture']
    cfg = fx.as_buildable() if hasattr(fx, 'as_buildable') else fx()
  except Exception as e:  # pylint: disable=broad-except
    rec['out'] = 'broken-module'
    rec['err'] = f'{type(e).__name__}: {str(e)[:150]}'
    return rec
  rec['out'] = 'emitted'
  rec['result'] = H.project(cfg)[0]
  return rec


def work(lines):
  recs = []
  quick = common.tier() == 'quick'
  for line in lines:
    rec = common.decode_line(line)
    hp = rec['heap']
    if hp[0]['k'] not in ('config', 'partial'):
      continue
    root, _ = H.realize(hp)
    rot = sum(len(o['items']) for o in hp)
    kids = buildable_children(root)
    for o in option_sets(root, quick, rot):
      idx = None
      if o['sub_fixtures']:
        idx = {n: next(i for i, k in enumerate(kids) if k is v) for n, v in o['sub_fixtures'].items()}
      o2 = dict(o, sub_fixtures=idx)
      for g in ('new', 'ac'):
        recs.append(one(hp, g, o2))
  return {'lines': len(lines), 'nontrivial': 0}, [], recs


def tree_heap(rng):
  """A tree of 5..8 Configs plus one or two extra references (sharing below the sub-fixture candidates)."""
  n = rng.randint(5, 8)
  objs = {1: {'k': 'config', 'fn': rng.randint(1, 4), 'items': {}}}
  kids = collections.defaultdict(list)
  for i in range(2, n + 1):
    while True:
      p = rng.randint(max(1, i - 3), i - 1)
      free = [s for s in (1, 2, 3) if s not in objs[p]['items']]
      if free:
        break
    objs[p]['items'][rng.choice(free)] = -i
    objs[i] = {'k': 'config', 'fn': rng.randint(1, 4), 'items': {}}
    kids[p].append(i)
  def desc(i):
    out = []
    for k in kids[i]:
      out += [k] + desc(k)
    return out
  for _ in range(rng.randint(1, 2)):
    src = rng.randint(1, n - 1)
    cands = [j for j in range(src + 1, n + 1) if not kids[j]] or [n]   # refer to leaves: single-path sub-fixture roots
    free = [s for s in (1, 2, 3) if s not in objs[src]['items']]
    if free:
      objs[src]['items'][rng.choice(free)] = -rng.choice(cands)
  for i in range(1, n + 1):
    free = [s for s in (1, 2, 3) if s not in objs[i]['items']]
    if free and rng.random() < 0.5:
      objs[i]['items'][rng.choice(free)] = rng.randint(1, 3)
  heap = [{'k': 'config', 'fn': objs[i]['fn'],
           'items': [{'key': s, 'val': v, 'tg': 0} for s, v in sorted(objs[i]['items'].items())]}
          for i in range(1, n + 1)]
  r, _ = H.realize(heap, 1)
  return H.project(r)[0]


def larger_work(seeds):
  """Random configurations of 4..7 objects x sub-fixture subsets in both orders x both generators."""
  common.quiet_logging()
  recs = []
  for seed in seeds:
    rng = random.Random(seed)
    if seed % 2:
      hp = tree_heap(rng)
    else:
      hp = c02.random_heap(rng, rng.randint(4, 7), kinds=('config', 'config', 'config', 'config', 'list', 'dict'))
    if hp[0]['k'] != 'config':
      continue
    nk = sum(1 for o in hp[1:] if o['k'] == 'config')
    if nk == 0:
      continue
    subsets = []
    for _ in range(3):
      r = rng.randint(1, min(3, nk))
      picks = rng.sample(range(nk), r)
      subsets.append(picks)
      subsets.append(list(reversed(picks)))
    for picks in subsets:
      sf = collections.OrderedDict((f'sub_{chr(97 + n)}', j) for n, j in enumerate(picks))
      for cx in (None, rng.choice([0, 1, 2])):
        o = {'sub_fixtures': sf, 'max_expression_complexity': cx, 'include_history': False}
        for g in ('new', 'ac'):
          rec = one(hp, g, o)
          rec['opts']['sub'] = list(picks)     # in the order given
          recs.append(rec)
  return recs


def _reach(h, i, acc=None):
  acc = acc if acc is not None else set()
  if i in acc:
    return acc
  acc.add(i)
  for it in h[i - 1]['items']:
    if it['val'] < 0:
      _reach(h, -it['val'], acc)
  return acc


def sub_fixture_class(h, subs):
  """Structural class of (configuration, sub-fixture choice); used to identify known findings narrowly."""
  if not subs:
    return 'none'
  parents = collections.defaultdict(list)
  for i, o in enumerate(h, 1):
    for it in o['items']:
      if it['val'] < 0:
        parents[-it['val']].append(i)
  memo = {}
  def npaths(i):
    if i == 1:
      return 1
    if i not in memo:
      memo[i] = sum(npaths(p) for p in parents[i])
    return memo[i]
  idxs = [i for i in range(2, len(h) + 1) if h[i - 1]['k'] in ('config', 'partial', 'tagged')]
  roots = [idxs[j] for j in subs if j < len(idxs)]
  if any(npaths(r) > 1 for r in roots):
    return 'sub-fixture-root-reachable-by-several-paths'
  shared = [i for i in parents if len(parents[i]) > 1]
  if any((_reach(h, s) - {s}) & set(shared) for s in shared):
    return 'shared-object-inside-shared-object'
  for a in roots:
    for b in roots:
      if a != b and b in _reach(h, a):
        rb = _reach(h, b)
        if any(o in rb and o != b and any(p not in rb for p in parents[o]) for o in shared):
          return 'shared-across-nested-sub-fixture-boundary'
  return 'plain'


def judge(v, recs, wd):
  os.makedirs(wd, exist_ok=True)
  for n, r in enumerate(recs):
    r['tid'] = n + 1
  verdicts = {}
  def on_json(line):
    r = common.decode_line(line)
    verdicts[r['tid']] = r
  n = max(1, min(common.NCPU, len(recs) // 300 or 1))
  slices = [recs[k::n] for k in range(n)]
  import concurrent.futures as cf
  def run(k):
    path = os.path.join(wd, f'c12-{k}.json')
    with open(path, 'w') as f:
      # (compared modulo the identity of internable tuples: source text cannot express it)
      json.dump([{'tid': r['tid'], 'heap': H.canon_values(r['heap']), 'out': r['out'],
                  'result': H.canon_values(r['result'])} for r in slices[k]], f)
    return common.run_tlc('Trace_C12', common.cfg_text({}, init='TInit', next_='TNext'),
                          workdir=os.path.join(wd, f'tr{k}'), on_json=on_json, workers=1,
                          env={'TRACE_FILE': path})
  with cf.ThreadPoolExecutor(n) as ex:
    for res in ex.map(run, range(n)):
      common.require_tlc_ok(res, 'Trace_C12')
  if len(verdicts) != len(recs):
    raise common.MachineryError(f'Trace_C12 judged {len(verdicts)} of {len(recs)} records')
  acc = 0
  for r in recs:
    vd = verdicts[r['tid']]
    if vd['ok']:
      acc += 1
      continue
    multi = any(it['tg'] in (3, 5, 6, 7) for o in r['heap'] for it in o['items'])
    refc = {}
    for o in r['heap']:
      for it in o['items']:
        if it['val'] < 0:
          refc[-it['val']] = refc.get(-it['val'], 0) + 1
    v.mismatch({'clause': vd['failed'], 'gen': r['gen'], 'with_sub_fixtures': bool(r['opts']['sub']),
                'multi_tag_argument': multi, 'shared_object': any(c_ > 1 for c_ in refc.values()),
                'sub_fixture_class': sub_fixture_class(r['heap'], r['opts']['sub']),
                'err': r['err'].split(':')[0]},
               {'heap': r['heap'], 'opts': r['opts'],
                'message': f'{vd["failed"]}: {r["err"]}\n{r["code"][:700]}\nresult={json.dumps(r["result"])[:300]}'})
  return acc


# ------------------------- value clause (exploration) ------------------------

def value_cases(rng):
  nt = c09.NT
  vals = [0, -7, 2 ** 70, 1.5, -0.0, 1e300, float('inf'), float('-inf'), float('nan'), 3 + 4j, complex(0, -1),
          True, None, Ellipsis, '', 'a"b\'c\\d\n', 'é中\U0001f600', b'', b'\x00\xff\\u0041', (), (1,), [1, [2]],
          {'k': (1, 2)}, {(1, 2): 'v', frozenset([1]): 2}, {1, 2}, set(), frozenset(['a']), slice(1, None, 2),
          c09.Color.RED, int, H.f1, H.ClsA, nt(1, 'b'), [nt(1, (2,))], range(3) if False else [0, 1, 2]]
  return vals


def explore_values():
  out = []
  n = 0
  for val in value_cases(None):
    n += 1
    try:
      node = py_val_to_cst_converter.convert_py_val_to_cst(val)
      import libcst as cst
      code = cst.Module(body=[]).code_for_node(node)
    except Exception as e:  # loud: allowed  # pylint: disable=broad-except
      continue
    cls = type(val).__name__ if not (isinstance(val, float) and not math.isfinite(val)) else 'float-special'
    try:
      ns = {'heap': H, 'harness': __import__('harness'), 'c09': c09, 'fdl': fdl}
      import harness.heap, harness.c09  # pylint: disable=g-import-not-at-top,unused-import
      back = eval(code, ns)  # pylint: disable=eval-used
    except Exception as e:  # pylint: disable=broad-except
      out.append(({'clause': 'value-expression-does-not-evaluate', 'value_class': cls,
                   'observed': type(e).__name__}, f'{val!r} -> {code!r}: {e}'[:200]))
      continue
    if not c09.same(back, val):
      out.append(({'clause': 'value-expression-differs', 'value_class': cls},
                  f'{val!r} -> {code!r} -> {back!r}'[:200]))
  return out, n


def main():
  v = common.Verdict(PROP, 'translation_validation')
  quick = common.tier() == 'quick'
  base = dict(MaxItems=2, NLeaves=1, NKeys=1, NSlots=2, NFns=1, EmitOn=True)
  runs = [dict(base, MaxObjs=3, KindSet={'config', 'partial', 'list', 'dict'}, TagChoices={0},
               UnsetTagged=False),
          dict(base, MaxObjs=2, KindSet={'config', 'list', 'tuple'}, TagChoices={0, 1, 5}, UnsetTagged=True)]
  if not quick:
    # (sized with TLC alone: three objects of five kinds with three tag sets and two callables are 4 M heaps;
    # every heap is emitted under all sub-fixture subsets x 5 thresholds x history x 2 generators)
    runs = [dict(base, MaxObjs=3, KindSet={'config', 'partial', 'list', 'dict', 'tuple'}, TagChoices={0},
                 UnsetTagged=False),
            dict(base, MaxObjs=2, NFns=2, KindSet={'config', 'partial', 'list', 'dict', 'tuple'},
                 TagChoices={0, 1, 5}, UnsetTagged=True)]
  with common.scratch() as wd:
    recs = []
    states = trans = 0
    for n, c in enumerate(runs):
      disp = common.Dispatcher(work, chunk=60)
      r = common.run_tlc('MC_Heaps', common.cfg_text(c, constraints=['GenPrune'], invariants=['Emit']),
                         workdir=os.path.join(wd, f'h{n}'), on_json=disp)
      common.require_tlc_ok(r, 'MC_Heaps')
      states += r.distinct
      trans += r.generated
      for _, _, part in disp.results():
        recs += part
    import multiprocessing as mp
    nlarge = 400 if quick else 6000
    seeds = [common.seed() * 7919 + k for k in range(nlarge)]
    with mp.Pool(common.NCPU) as pl:
      for part in pl.map(larger_work, [seeds[k::common.NCPU] for k in range(common.NCPU)]):
        recs += part
    # hand-made configurations: a mutable leaf container (a set) shared inside one fixture
    def it(k, v):
      return {'key': k, 'val': v, 'tg': 0}
    shared_set = [[{'k': 'config', 'fn': 1, 'items': [it(1, -2), it(2, -3), it(3, -4)]},
                   {'k': 'mleaf', 'fn': 0, 'items': []},
                   {'k': 'list', 'fn': 0, 'items': [it(0, -2), it(1, 1)]},
                   {'k': 'config', 'fn': 4, 'items': [it(1, -2)]}],
                  [{'k': 'partial', 'fn': 2, 'items': [it(1, -2), it(2, -3)]},
                   {'k': 'dict', 'fn': 0, 'items': [it(1, -4), it(2, -4)]},
                   {'k': 'config', 'fn': 4, 'items': [it(2, -4)]},
                   {'k': 'mleaf', 'fn': 0, 'items': []}]]
    for hp in shared_set:
      for cx in (None, 0, 1, 3):
        for g in ('new', 'ac'):
          recs.append(one(hp, g, {'sub_fixtures': None, 'max_expression_complexity': cx, 'include_history': False}))
    good = next(r for r in recs if r['out'] == 'emitted' and len(r['heap']) >= 2)
    vneg = common.Verdict(PROP, 'translation_validation')
    vneg.kf.entries = []
    if judge(vneg, [dict(good, result=good['heap'][:1])], os.path.join(wd, 'neg')):
      raise common.MachineryError('Trace_C12 accepted an inexact result')
    accepted = judge(v, recs, os.path.join(wd, 'judge'))
    ev, nev = explore_values()
    for f, msg in ev:
      v.mismatch(f, {'message': msg})
  v.coverage.update({
      'programs': len(recs), 'disagreements_checked': len(recs) - accepted,
      'states': states, 'transitions': trans, 'evaluations': len(recs) + nev,
      'distinct_nontrivial': sum(1 for r in recs if len(r['heap']) >= 2),
      'rule': 'one program = the module emitted for (complete heap from TLC with a Buildable root, generator of 2, '
              'sub-fixture subset, complexity threshold, history option); non-trivial = at least two objects',
      'accepted': accepted, 'emitted': sum(1 for r in recs if r['out'] == 'emitted'),
      'rejected': sum(1 for r in recs if r['out'] == 'rejected'),
      'value_expressions_exploration': nev, 'exhaustive': True,
  })
  ex = next((r for r in recs if r['out'] == 'emitted' and len(r['heap']) >= 3 and r['opts']['sub']), recs[0])
  v.sample({'heap': ex['heap'], 'gen': ex['gen'], 'opts': ex['opts'], 'code': ex['code'][:1500]})
  v.assumptions += ['concrete numerals / strings are exploration; the emitted module is executed with '
                    'linecache registration so that auto_config can read its source']
  return v.finish()


if __name__ == '__main__':
  common.main_wrapper(main)
