"""C20 — meaning-preserving transformations preserve what is built.

MC  : spec/MC_C20 (FdlGen + FdlTransforms): configurations with Partials,
      TaggedValues (with / without value), tags and containers; the reference
      materialize_defaults satisfies every clause (satisfiable, non-vacuous).
Judge: for every generated heap each real transformation is applied; the pair
      (pre, post) plus the real verdicts (post == pre, serializability, built
      graphs) is judged by spec/Trace_C20: SameMeaning, Equiv, AllExplicit,
      Idempotent, KeepsSerializable.
Scenarios: positional-only defaults, mutable / shared defaults, dataclasses with
      default factories, convert_dataclasses_to_configs, auto_config.inline.
"""
from __future__ import annotations

import copy
import dataclasses
import json
import os
import random
from typing import Any, List

import fiddle as fdl
from fiddle._src import materialize
from fiddle._src import tagging
from fiddle._src.experimental import visualize
from fiddle._src.experimental import transform
from fiddle._src.experimental import serialization
from fiddle._src.experimental import auto_config
from fiddle._src.experimental import dataclasses as fdl_dc

from harness import common
from harness import heap as H
from harness import c02
from harness import pool

PROP = 'C20'


def _materialize(cfg):
  c = copy.deepcopy(cfg)
  materialize.materialize_defaults(c)
  return c


TRANSFORMS = {
    'materialize_defaults': _materialize,
    'with_defaults_trimmed': visualize.with_defaults_trimmed,
    'with_defaults_trimmed_deep': lambda c: visualize.with_defaults_trimmed(c, remove_deep_defaults=True),
    'unintern_tuples_of_literals': transform.unintern_tuples_of_literals,
    'replace_unconfigured_partials_with_callables': transform.replace_unconfigured_partials_with_callables,
    'clear_argument_history': serialization.clear_argument_history,
    'materialize_tags': tagging.materialize_tags,
    'materialize_tags_some': lambda c: tagging.materialize_tags(c, tags={H.T0}),
    'materialize_tags_clear': lambda c: tagging.materialize_tags(c, clear_field_tags=True),
}


def proj(x):
  p = H.Projector(callable_leaves=True)
  r = p.val(x)
  return p.heap, r


def built(x):
  try:
    b = fdl.build(x)
  except Exception as e:  # pylint: disable=broad-except
    return 'raise'
  p = H.Projector(callable_leaves=True, sort_dicts=True)
  r = p.val(b)
  return [p.heap, r]


def serializable(x):
  try:
    serialization.dump_json(x)
    return 'T'
  except Exception:  # pylint: disable=broad-except
    return 'F'


def record(tid, hp, name):
  root, _ = H.realize(hp)
  pre, _ = proj(root)
  rec = {'tid': tid, 'name': name, 'pre': pre, 'out': 'ok', 'post': [], 'post2': [], 'postroot': 1,
         'postleaf': 0, 'eq_real': 'n/a', 'ser_pre': serializable(root), 'ser_post': 'n/a',
         'built_equal': 'n/a'}
  try:
    post = TRANSFORMS[name](root)
  except Exception as e:  # pylint: disable=broad-except
    rec['out'] = 'raise:' + type(e).__name__
    return rec
  ph, pr = proj(post)
  if not (isinstance(pr, int) and pr < 0):
    rec['postroot'] = 0
    rec['postleaf'] = pr if isinstance(pr, int) else -1
  rec['post'] = ph
  rec['ser_post'] = serializable(post)
  try:
    rec['eq_real'] = 'T' if (post == root) else 'F'
  except Exception as e:  # pylint: disable=broad-except
    rec['eq_real'] = 'raise:' + type(e).__name__
  if name == 'materialize_defaults':
    try:
      materialize.materialize_defaults(post)
      rec['post2'] = proj(post)[0]
    except Exception as e:  # pylint: disable=broad-except
      rec['post2'] = [{'k': 'raise:' + type(e).__name__, 'fn': 0, 'items': []}]
  b1, b2 = built(root), built(post)
  if b1 != 'raise' or b2 != 'raise':
    rec['built_equal'] = 'T' if b1 == b2 else 'F'
  after, _ = proj(root)
  if after != pre:
    rec['out'] = 'input-modified'
  return rec


def work(lines):
  recs = []
  for line in lines:
    rec = common.decode_line(line)
    if rec['heap'][0]['k'] == 'tagged':
      continue
    for name in TRANSFORMS:
      recs.append(record(0, rec['heap'], name))
  return recs


def judge(v, recs, wd, tag):
  os.makedirs(wd, exist_ok=True)
  for i, r in enumerate(recs):
    r['tid'] = i + 1
  verdicts = {}
  def on_json(line):
    r = common.decode_line(line)
    verdicts[r['tid']] = r
  # judge in slices on all cores
  n = max(1, min(common.NCPU, len(recs) // 200 or 1))
  slices = [recs[i::n] for i in range(n)]
  import concurrent.futures as cf
  def run(k):
    path = os.path.join(wd, f'c20-{tag}-{k}.json')
    with open(path, 'w') as f:
      json.dump(slices[k], f)
    return common.run_tlc('Trace_C20', common.cfg_text({'AliasFix': True}, init='TInit', next_='TNext'),
                          workdir=os.path.join(wd, f'tr-{tag}-{k}'), on_json=on_json, workers=1,
                          env={'TRACE_FILE': path})
  with cf.ThreadPoolExecutor(n) as ex:
    for res in ex.map(run, range(n)):
      common.require_tlc_ok(res, 'Trace_C20')
  if len(verdicts) != len(recs):
    raise common.MachineryError(f'Trace_C20 judged {len(verdicts)} of {len(recs)} records')
  acc = 0
  for r in recs:
    vd = verdicts[r['tid']]
    if vd['ok']:
      acc += 1
    else:
      v.mismatch({'clause': vd['failed'], 'transformation': r['name'],
                  'observed': r['out'] if vd['failed'] == 'raises' else ''},
                 {'pre': r['pre'], 'message': f'{r["name"]}: clause {vd["failed"]} fails; post='
                                              f'{json.dumps(r["post"])[:300]} out={r["out"]} '
                                              f'eq={r["eq_real"]} ser={r["ser_pre"]}->{r["ser_post"]}'})
  return acc


# ----------------------------------------------------------------------------
# scenarios outside the heap machine
# ----------------------------------------------------------------------------

def po_default(a, b=7, /, c=3):
  return (a, b, c)


SHARED_DEFAULT = [1, 2]


def mutable_default(x=SHARED_DEFAULT, y=SHARED_DEFAULT, z=None):
  return (x, y, z)


@dataclasses.dataclass
class Inner:
  v: int = 1
  w: List[int] = dataclasses.field(default_factory=lambda: [1, 2])


@dataclasses.dataclass
class Outer:
  a: Inner = dataclasses.field(default_factory=Inner)
  b: Any = None
  c: int = 5


def scenarios():
  out = []
  def probe(name, fn):
    try:
      r = fn()
    except Exception as e:  # pylint: disable=broad-except
      out.append(({'clause': 'scenario', 'scenario': name, 'observed': 'raise:' + type(e).__name__},
                  f'{name}: {type(e).__name__}: {str(e)[:150]}'))
      return
    if r is not True:
      out.append(({'clause': 'scenario', 'scenario': name, 'observed': 'wrong'}, f'{name}: {r}'))
  def s_posonly_default():
    cfg = fdl.Config(po_default, 1)
    before = fdl.build(cfg)
    c = copy.deepcopy(cfg)
    materialize.materialize_defaults(c)
    ok = fdl.build(c) == before and c == cfg and c[:] == [1, 7, 3] and 1 in c.__arguments__
    c2 = copy.deepcopy(c)
    materialize.materialize_defaults(c2)
    return (ok and c2.__arguments__ == c.__arguments__) or f'{c.__arguments__}'
  def s_mutable_shared_default():
    cfg = fdl.Config(mutable_default)
    b0 = fdl.build(cfg)
    c = copy.deepcopy(cfg)
    materialize.materialize_defaults(c)
    b1 = fdl.build(c)
    same_sharing = (b0[0] is b0[1]) == (b1[0] is b1[1])
    t = visualize.with_defaults_trimmed(c)
    return (b1 == b0 and c == cfg and t == cfg and same_sharing
            and serialization.dump_json(c) is not None) or f'{b0} vs {b1}, sharing kept: {same_sharing}'
  def s_dataclass_default_factory():
    cfg = fdl.Config(Outer, b=fdl.Config(Inner, v=2))
    b0 = fdl.build(cfg)
    c = copy.deepcopy(cfg)
    materialize.materialize_defaults(c)
    b1 = fdl.build(c)
    t = visualize.with_defaults_trimmed(c)
    if not (b0 == b1 and fdl.build(t) == b0):
      return f'{b0} vs {b1}'
    # a default *factory* is no default value: the configuration must stay == to the original,
    # serializable, and a second application must change nothing
    if serializable(cfg) == 'T' and serializable(c) != 'T':
      return 'materialize_defaults made a serializable configuration unserializable: ' + repr(c.__arguments__)
    c2 = copy.deepcopy(c)
    materialize.materialize_defaults(c2)
    if not (c == cfg and c2 == c and c2.__arguments__.keys() == c.__arguments__.keys()):
      return f'not == / not idempotent: {c.__arguments__}'
    return True
  def s_convert_dataclasses():
    x = Outer(a=Inner(v=3, w=[9]), b=[Inner(), {'k': Inner(v=4)}], c=6)
    cfg = fdl_dc.convert_dataclasses_to_configs(x, allow_post_init=True)
    return fdl.build(cfg) == x or f'{fdl.build(cfg)} vs {x}'
  def s_inline():
    @auto_config.auto_config
    def leaf(n):
      return H.g4(s1=n)
    @auto_config.auto_config
    def top():
      shared = leaf(1)
      return H.f1(s1=shared, s2=[shared, leaf(2)])
    cfg = top.as_buildable()
    outer = fdl.Config(top)
    b0 = pool.inst_of(fdl.build(outer)).args
    auto_config.inline(outer)
    b1 = pool.inst_of(fdl.build(outer)).args
    def shape(a):
      s1 = pool.inst_of(a['s1'])
      l = a['s2']
      return (s1.args['s1'], l[0] is a['s1'], pool.inst_of(l[1]).args['s1'])
    return shape(b0) == shape(b1) or f'{shape(b0)} vs {shape(b1)}'
  def s_inline_shared_argument():
    # a sub-config passed to the auto_config function and referenced elsewhere too stays one object
    @auto_config.auto_config(experimental_always_inline=False)
    def pipeline(tok):
      return H.ClsA(s1=tok, s2=H.g4(s1=tok))
    tok = fdl.Config(H.g4, s1=7)
    outer = fdl.Config(H.f1, s1=fdl.Config(pipeline, tok=tok), s2=tok)
    def shape(b):
      a = pool.inst_of(b).args
      inner = pool.inst_of(a['s1']).args
      return (inner['s1'] is a['s2'], pool.inst_of(inner['s2']).args['s1'] is a['s2'])
    before = shape(fdl.build(outer))
    auto_config.inline(outer.s1)
    after = shape(fdl.build(outer))
    return (before == after == (True, True) and outer.s1.s1 is outer.s2) or f'{before} -> {after}'
  def s_partials_with_unnamed_arguments():
    # Partials whose only arguments go to **kwargs, to *args or to positional-only parameters are configured
    def kwf(a=1, **kw):
      return (a, kw)
    def posf(a=1, /, *rest):
      return (a, rest)
    cases = [fdl.Partial(kwf, verbose=True), fdl.Partial(posf, 5), fdl.Partial(posf, 1, 2, 3),
             fdl.Partial(kwf, a=1, extra=2)]
    for c in cases:
      root = fdl.Config(H.f1, s1=[c])
      t = transform.replace_unconfigured_partials_with_callables(root)
      b0, b1 = fdl.build(root), fdl.build(t)
      f0, f1 = pool.inst_of(b0).args['s1'][0], pool.inst_of(b1).args['s1'][0]
      if f0() != f1():
        return f'{c}: calling the result gives {f1()} instead of {f0()}'
    return True
  def s_unset_tagged_in_container():
    cfg = fdl.Config(H.f1, s1=[H.T1.new(), H.T1.new(4)], s2=H.T2.new(5))
    m = tagging.materialize_tags(cfg)
    return (m.s1[1] == 4 and m.s2 == 5 and isinstance(m.s1[0], fdl.Buildable)) or f'{m}'
  def s_partial_in_containers():
    cfg = fdl.Config(H.f1, s1=[fdl.Partial(H.g4), fdl.Partial(H.g4, s1=2)],
                     s2={'k1': fdl.Partial(H.ClsA)})
    t = transform.replace_unconfigured_partials_with_callables(cfg)
    ok = t.s1[0] is H.g4 and isinstance(t.s1[1], fdl.Partial) and t.s2['k1'] is H.ClsA
    b = pool.inst_of(fdl.build(t)).args
    return (ok and b['s1'][0] is H.g4 and b['s1'][1].keywords == {'s1': 2}) or f'{t}'
  def s_shared_value_equal_to_default():
    def node(a=[], b=None, c=None):  # pylint: disable=dangerous-default-value
      return (a, b, c)
    shared = []
    outs = []
    for cfg in (fdl.Config(node, a=shared, b=shared),
                fdl.Config(node, a=shared, c=[shared, 1]),
                fdl.Config(H.f1, s1=fdl.Config(node, a=shared), s2=shared)):
      b0 = fdl.build(cfg)
      for deep in (False, True):
        t = visualize.with_defaults_trimmed(cfg, remove_deep_defaults=deep)
        b1 = fdl.build(t)
        def alias(b):
          if isinstance(b, tuple):
            return (b[0] is b[1], isinstance(b[2], list) and b[2] and b[2][0] is b[0])
          a = pool.inst_of(b).args
          return (a['s1'][0] is a['s2'],)
        if alias(b0) != alias(b1) or not (t == cfg):
          outs.append((deep, alias(b0), alias(b1), t == cfg))
    return (not outs) or f'trimming changed aliasing / equality: {outs}'
  def s_posonly_gap_default():
    def f(a, b=2, c=3, /, d=4):
      return (a, b, c, d)
    cfg = fdl.Config(f, 10)
    c2 = copy.deepcopy(cfg)
    materialize.materialize_defaults(c2)
    return (fdl.build(c2) == fdl.build(cfg) == (10, 2, 3, 4) and c2 == cfg and c2[:] == [10, 2, 3, 4]
            ) or f'{c2.__arguments__} builds {fdl.build(c2)}'
  def s_tagged_shared_value():
    shared = fdl.Config(H.g4, s1=1)
    cfg = fdl.Config(H.f1, s1=[H.T1.new(shared)], s2=shared)
    m = tagging.materialize_tags(cfg)
    b0, b1 = pool.inst_of(fdl.build(cfg)).args, pool.inst_of(fdl.build(m)).args
    return ((b0['s1'][0] is b0['s2']) == (b1['s1'][0] is b1['s2']) and m.s1[0] is m.s2
            ) or 'materialize_tags lost the sharing of a tagged value'
  for name, fn in [('shared-value-equal-to-mutable-default', s_shared_value_equal_to_default),
                   ('posonly-default-after-required', s_posonly_gap_default),
                   ('tagged-shared-value', s_tagged_shared_value),
                   ('posonly-default', s_posonly_default),
                   ('mutable-shared-default', s_mutable_shared_default),
                   ('dataclass-default-factory', s_dataclass_default_factory),
                   ('convert_dataclasses_to_configs', s_convert_dataclasses),
                   ('auto_config-inline', s_inline),
                   ('auto_config-inline-shared-argument', s_inline_shared_argument),
                   ('partials-with-unnamed-arguments', s_partials_with_unnamed_arguments),
                   ('unset-tagged-in-container', s_unset_tagged_in_container),
                   ('partials-in-containers', s_partial_in_containers)]:
    probe(name, fn)
  return out, 12


def main():
  v = common.Verdict(PROP, 'model_checking')
  quick = common.tier() == 'quick'
  consts = dict(MaxObjs=3, MaxItems=2, NLeaves=1, NKeys=1, NSlots=2, NFns=1,
                KindSet={'config', 'partial', 'list', 'tagged'}, TagChoices={0, 1},
                UnsetTagged=True, EmitOn=True, AliasFix=True)
  runs = [dict(consts, TagChoices={0}, UnsetTagged=True)]
  if not quick:
    # (sized with TLC alone: six kinds with tags over three objects are beyond a million heaps, each judged
    # under nine transformations)
    runs += [dict(consts, KindSet={'config', 'partial', 'list', 'dict', 'tuple'}, TagChoices={0}, UnsetTagged=False),
             dict(consts, MaxObjs=2, KindSet={'config', 'partial', 'list', 'dict', 'tuple', 'tagged'},
                  TagChoices={0, 1}, UnsetTagged=True)]
  with common.scratch() as wd:
    recs = []
    res = None
    for n, c in enumerate(runs):
      disp = common.Dispatcher(work, chunk=100)
      r = common.run_tlc('MC_C20', common.cfg_text(c, constraints=['GenPrune'],
                                                   invariants=['RefSatisfiesClauses', 'Emit']),
                         workdir=os.path.join(wd, f'mc{n}'), on_json=disp)
      common.require_tlc_ok(r, 'MC_C20')
      for part in disp.results():
        recs += part
      if res is None:
        res = r
      else:
        res.distinct += r.distinct
        res.generated += r.generated
    # explicit defaults in the input (leaf = default value of the slot) via random heaps
    rng = random.Random(common.seed() * 141650939 + 8)
    for _ in range(150 if quick else 1500):
      hp = c02.random_heap(rng, rng.randint(2, 7), kinds=('config', 'config', 'config', 'list', 'dict', 'tuple'))
      for o in hp:
        if o['k'] == 'config' and rng.random() < 0.3:
          o['k'] = 'partial'
        if o['k'] in ('config', 'partial'):
          for it in o['items']:
            if it['val'] > 0 and rng.random() < 0.4:
              it['val'] = 1000 + it['key']
            if rng.random() < 0.2:
              it['tg'] = rng.choice([1, 2, 4])
      if hp[0]['k'] not in ('config', 'partial'):
        continue
      root, _ = H.realize(hp)
      hp = proj(root)[0]
      for name in TRANSFORMS:
        recs.append(record(0, hp, name))
    # binding demo
    good = next(r for r in recs if r['name'] == 'materialize_defaults' and r['out'] == 'ok'
                and len(r['pre']) >= 2)
    vneg = common.Verdict(PROP, 'model_checking')
    vneg.kf.entries = []
    if judge(vneg, [dict(good, post=good['pre'], post2=good['pre'])], os.path.join(wd, 'neg'), 'neg'):
      raise common.MachineryError('Trace_C20 accepted a materialize_defaults that set nothing')
    accepted = judge(v, recs, os.path.join(wd, 'judge'), 'all')
    sc, nsc = scenarios()
    for f, msg in sc:
      v.mismatch(f, {'message': msg})
  nontrivial = sum(1 for r in recs if r['out'] == 'ok' and r['post'] != r['pre'])
  v.coverage.update({
      'states': res.distinct, 'transitions': res.generated,
      'traces_validated_against_impl': len(recs), 'evaluations': len(recs) + nsc,
      'distinct_nontrivial': nontrivial,
      'rule': 'one case = (configuration, transformation of 9); non-trivial = the transformation changed '
              'the configuration. Heaps: every complete heap from TLC in the bound plus random heaps whose '
              'arguments are explicitly set to their defaults; 7 scenarios outside the heap machine.',
      'accepted': accepted, 'transformations': list(TRANSFORMS), 'scenarios': nsc,
      'model': res.as_dict(), 'exhaustive': True,
  })
  v.samples = None
  v.sample({'pre': recs[0]['pre'], 'transformation': recs[0]['name'], 'post': recs[0]['post']})
  v.assumptions += ['an unconfigured Partial and its bare callable are the same meaning (compared as the '
                    'leaf 2000 + fn on both sides, also in the real built graphs)']
  return v.finish()


if __name__ == '__main__':
  common.main_wrapper(main)
