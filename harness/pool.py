"""Recording callables for abstract signatures.

An abstract signature is a list of {"k": kind, "d": has_default}; parameter i
(1-based) is named `p<i>`, names not in the signature are `x101`, `x102`.
Every callable returns an `Inst` that records which callable ran, with which
locals, and a global invocation number.
"""
from __future__ import annotations

import dataclasses
import functools
import itertools
import threading


class Leaf:
  """An opaque leaf value with identity semantics (leaf n of the spec)."""
  __slots__ = ('n',)

  def __init__(self, n):
    self.n = n

  def __repr__(self):
    return f'L{self.n}'

  def __deepcopy__(self, memo):
    return self

  def __copy__(self):
    return self

  def __reduce__(self):
    return (_leaf, (self.n,))


class Default:
  """The default object of parameter i."""
  __slots__ = ('i',)

  def __init__(self, i):
    self.i = i

  def __repr__(self):
    return f'D{self.i}'

  def __deepcopy__(self, memo):
    return self

  def __copy__(self):
    return self

  def __reduce__(self):
    return (_default, (self.i,))


LEAVES = [Leaf(n) for n in range(64)]
DEFAULTS = [Default(i) for i in range(32)]


def _leaf(n):
  return LEAVES[n]


def _default(i):
  return DEFAULTS[i]


_counter = itertools.count(1)
_local = threading.local()
CALL_LOG = []      # (seqno, fn_id, Inst) in invocation order


class Inst:
  """What a recording callable returns: the locals it actually received."""

  def __init__(self, fn_id, args):
    self.fn_id = fn_id
    self.args = args
    self.seq = next(_counter)
    CALL_LOG.append(self)

  def __repr__(self):
    return f'Inst#{self.seq}({self.fn_id}, {self.args})'


def pname(n: int) -> str:
  return f'p{n}' if n < 100 else f'x{n}'


def pid(name: str) -> int:
  return int(name[1:])


def sig_key(sig) -> str:
  return ','.join(p['k'] + ('=' if p['d'] else '') for p in sig)


def _params_src(sig) -> str:
  parts = []
  n = len(sig)
  last_po = max([i for i, p in enumerate(sig) if p['k'] == 'PO'], default=-1)
  has_vp = any(p['k'] == 'VP' for p in sig)
  star_done = False
  for i, p in enumerate(sig):
    name = f'p{i + 1}'
    k = p['k']
    if k == 'KO' and not has_vp and not star_done:
      parts.append('*')
      star_done = True
    if k == 'VP':
      parts.append('*' + name)
    elif k == 'VK':
      parts.append('**' + name)
    else:
      parts.append(name + (f'=_D[{i + 1}]' if p['d'] else ''))
    if i == last_po:
      parts.append('/')
  return ', '.join(parts)


_FN_CACHE = {}


def get_fn(sig, form='function'):
  """Returns a recording callable with the given abstract signature."""
  key = (sig_key(sig), form)
  fn = _FN_CACHE.get(key)
  if fn is not None:
    return fn
  params = _params_src(sig)
  fid = f'{form}:{sig_key(sig)}'
  ns = {'_D': DEFAULTS, '_Inst': Inst, '_fid': fid}
  names = [f'p{i + 1}' for i in range(len(sig))]
  collect = '{' + ', '.join(f"'{n}': {n}" for n in names) + '}'
  if form in ('function', 'function2'):
    src = f'def fn({params}):\n  return _Inst(_fid, {collect})\n'
    exec(src, ns)  # pylint: disable=exec-used
    fn = ns['fn']
  elif form == 'class':
    sep = ', ' if params else ''
    src = (f'class Cls:\n  def __init__(self{sep}{params}):\n'
           f'    self.inst = _Inst(_fid, {collect})\n')
    exec(src, ns)  # pylint: disable=exec-used
    fn = ns['Cls']
  elif form == 'classmethod':
    sep = ', ' if params else ''
    src = (f'class Holder:\n  @classmethod\n  def make(cls{sep}{params}):\n'
           f'    return _Inst(_fid, {collect})\n')
    exec(src, ns)  # pylint: disable=exec-used
    fn = ns['Holder'].make
  elif form == 'bound_method':
    # inst.m is a bound method of the function Cls.m; the unbound function (one more
    # parameter) is configured first in the same process: both are legitimate callables.
    sep = ', ' if params else ''
    src = (f'class WithMethod:\n  def m(self{sep}{params}):\n'
           f'    return _Inst(_fid, {collect})\n')
    exec(src, ns)  # pylint: disable=exec-used
    import fiddle as _fdl  # pylint: disable=g-import-not-at-top
    try:
      _fdl.Config(ns['WithMethod'].m)
    except Exception:  # pylint: disable=broad-except
      pass
    ns['_keep'] = ns['WithMethod']()
    fn = ns['_keep'].m
  elif form == 'callable_instance':
    sep = ', ' if params else ''
    src = (f'class CallMe:\n  def __call__(self{sep}{params}):\n'
           f'    return _Inst(_fid, {collect})\n')
    exec(src, ns)  # pylint: disable=exec-used
    fn = ns['CallMe']()
  elif form == 'partial':
    # functools.partial over a wider function: one extra leading keyword-only
    # parameter is pre-bound, so the visible signature is `sig`.
    has_vp = any(p['k'] == 'VP' for p in sig)
    has_ko = any(p['k'] == 'KO' for p in sig)
    has_vk = any(p['k'] == 'VK' for p in sig)
    if has_vk:
      # insert the extra keyword-only parameter before **kwargs
      idx = params.rfind('**')
      pre = params[:idx].rstrip(', ')
      extra = ('_w' if (has_vp or has_ko) else '*, _w')
      wide = ', '.join(x for x in (pre, extra, params[idx:]) if x)
    else:
      extra = ('_w' if (has_vp or has_ko) else '*, _w')
      wide = ', '.join(x for x in (params, extra) if x)
    src = f'def wide({wide}):\n  return _Inst(_fid, {collect})\n'
    exec(src, ns)  # pylint: disable=exec-used
    fn = functools.partial(ns['wide'], _w=0)
  elif form == 'dataclass':
    # only PK / KO parameters can be expressed
    fields = []
    for i, p in enumerate(sig):
      name = f'p{i + 1}'
      opts = []
      if p['d']:
        opts.append(f'default_factory=(lambda: _D[{i + 1}])' if (i % 2 == 0)
                    else f'default=_D[{i + 1}]')
      if p['k'] == 'KO':
        opts.append('kw_only=True')
      if opts:
        fields.append(f'  {name}: object = _dc.field({", ".join(opts)})')
      else:
        fields.append(f'  {name}: object')
    body = '\n'.join(fields) if fields else '  pass'
    src = f'@_dc.dataclass\nclass DC:\n{body}\n'
    ns['_dc'] = dataclasses
    exec(src, ns)  # pylint: disable=exec-used
    fn = ns['DC']
  else:
    raise ValueError(form)
  _FN_CACHE[key] = fn
  return fn


def form_applicable(sig, form) -> bool:
  if form == 'dataclass':
    return all(p['k'] in ('PK', 'KO') for p in sig) and len(sig) > 0
  return True


def inst_of(result):
  """Normalises what a recording callable produced to its Inst."""
  if isinstance(result, Inst):
    return result
  inst = getattr(result, 'inst', None)
  if isinstance(inst, Inst):
    return inst
  if dataclasses.is_dataclass(result):
    return Inst('dataclass:?', {f.name: getattr(result, f.name)
                                for f in dataclasses.fields(result)})
  return None


def proj_val(v):
  """Real value -> abstract integer."""
  import fiddle as fdl  # pylint: disable=g-import-not-at-top
  if isinstance(v, Leaf):
    return v.n
  if isinstance(v, Default):
    return 1000 + v.i
  if v is fdl.NO_VALUE:
    return -1
  return ('?', repr(v)[:40])
