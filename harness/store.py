"""Binding of spec/FdlStore.tla to fiddle's Buildable argument store.

Used by C03 (edits), C01 (build binding) and C16 (history).  One emitted
transition = {sig, pre:[{op,out,S}...], op, out, ret, post, view, oa, ...}.
"""
from __future__ import annotations

import fiddle as fdl
from fiddle._src import config as config_lib

from harness import pool

NONE, VA = 99, 98


def npos(sig):
  return sum(1 for p in sig if p['k'] in ('PO', 'PK'))


def has(sig, kind):
  return any(p['k'] == kind for p in sig)


def cv(x):
  """Abstract index/slice field -> Python object."""
  if x == NONE:
    return None
  if x == VA:
    return fdl.VARARGS
  return x


def construct(fn, sig, op, buildable_type=None):
  """`Config(fn, *args, **kwargs)` as described by a construct op."""
  bt = buildable_type or fdl.Config
  na = op['a']
  args = [pool.LEAVES[((i - 1) % 3) + 1] for i in range(1, na + 1)]
  kwargs = {pool.pname(n): pool.LEAVES[(n % 3) + 1] for n in op['vals']}
  return bt(fn, *args, **kwargs)


def flat_oargs(cfg, flags, sig=()):
  kinds = {pool.pname(i + 1): q['k'] for i, q in enumerate(sig)}
  d = fdl.ordered_arguments(
      cfg,
      include_var_keyword=bool(flags & 1),
      include_defaults=bool(flags & 2),
      include_unset=bool(flags & 4),
      include_positional=bool(flags & 8))
  sigpart, extras = [], []
  for k, v in d.items():
    if isinstance(k, int):
      sigpart += [0, k, pool.proj_val(v)]
    elif k.startswith('x') or kinds.get(k) in ('PO', 'VP', 'VK'):
      extras.append((pool.pid(k), pool.proj_val(v)))
    else:
      sigpart += [1, pool.pid(k), pool.proj_val(v)]
  for n, v in sorted(extras):
    sigpart += [1, n, v]
  return sigpart


def do_op(cfg, sig, op):
  """Performs one operation on the real Buildable: (out, exc_class, ret)."""
  name = op['name']
  try:
    if name == 'getitem':
      return 'ok', None, [pool.proj_val(cfg[cv(op['a'])])]
    if name == 'setitem':
      cfg[cv(op['a'])] = pool.LEAVES[op['vals'][0]]
      return 'ok', None, []
    if name == 'delitem':
      del cfg[cv(op['a'])]
      return 'ok', None, []
    if name in ('getslice', 'setslice', 'delslice'):
      sl = slice(cv(op['a']), cv(op['b']), cv(op['c']))
      if name == 'getslice':
        return 'ok', None, [pool.proj_val(v) for v in cfg[sl]]
      if name == 'setslice':
        cfg[sl] = [pool.LEAVES[v] for v in op['vals']]
        return 'ok', None, []
      del cfg[sl]
      return 'ok', None, []
    if name == 'getattr':
      return 'ok', None, [pool.proj_val(getattr(cfg, pool.pname(op['a'])))]
    if name == 'setattr':
      setattr(cfg, pool.pname(op['a']), pool.LEAVES[op['vals'][0]])
      return 'ok', None, []
    if name == 'delattr':
      delattr(cfg, pool.pname(op['a']))
      return 'ok', None, []
    if name == 'oargs':
      return 'ok', None, flat_oargs(cfg, op['a'], sig)
    if name == 'dir':
      names = dir(cfg)
      return 'ok', None, sorted(pool.pid(n) for n in names)
    raise ValueError(f'unknown op {name}')
  except Exception as e:  # pylint: disable=broad-except
    return 'raise', type(e).__name__, []


def project(cfg, sig):
  """Real Buildable -> abstract store state (total: oddities go to `stray`)."""
  n = npos(sig)
  pre = [0] * n
  ko = [0] * len(sig)
  ex = [0] * (len(sig) + 2)
  va = {}
  stray = []
  hasvp = has(sig, 'VP')
  for k, v in cfg.__arguments__.items():
    pv = pool.proj_val(v)
    if isinstance(k, bool) or not isinstance(k, (int, str)):
      stray.append([repr(k), pv])
    elif isinstance(k, int):
      if 0 <= k < n and sig[k]['k'] == 'PO':
        pre[k] = pv
      elif hasvp and k >= n:
        va[k - n] = pv
      else:
        stray.append([k, pv])
    else:
      try:
        i = pool.pid(k)
      except ValueError:
        stray.append([k, pv])
        continue
      if k.startswith('p') and 1 <= i <= len(sig):
        kind = sig[i - 1]['k']
        if kind == 'PK':
          pre[i - 1] = pv
        elif kind == 'KO':
          ko[i - 1] = pv
        elif has(sig, 'VK'):
          ex[i - 1] = pv     # a keyword named like a PO / *args / **kwargs parameter
        else:
          stray.append([k, pv])
      elif k.startswith('x') and i in (101, 102) and has(sig, 'VK'):
        ex[len(sig) + i - 101] = pv
      else:
        stray.append([k, pv])
  valist = []
  for j in range(len(va)):
    if j in va:
      valist.append(va[j])
    else:
      stray.append(['va-gap', sorted(va)])
      break
  out = {'pre': pre, 'va': valist, 'ko': ko, 'ex': ex}
  if stray:
    out['stray'] = stray
  return out


def state_eq(a, b):
  return (a['pre'] == b['pre'] and a['va'] == b['va'] and a['ko'] == b['ko']
          and a['ex'] == b['ex'] and not a.get('stray') and not b.get('stray'))


def region(sig, S, i):
  """Where an abstract index falls (for fingerprints)."""
  if i == VA:
    return 'varargs-handle'
  ln = len(S['pre']) + len(S['va'])
  n = i + ln if i < 0 else i
  if n < 0:
    return 'oor-neg'
  if n >= ln:
    return 'oor-pos'
  return 'prefix' if n < len(S['pre']) else 'va'


def features(sig, before, op, exp_out, obs_out, obs_exc, clause, unchanged):
  f = {
      'clause': clause,
      'op': op['name'],
      'has_varargs': has(sig, 'VP'),
      'expected': exp_out,
      'observed': obs_out + (':' + obs_exc if obs_exc else ''),
      'state_unchanged': unchanged,
  }
  if op['name'] in ('getitem', 'setitem', 'delitem'):
    f['region'] = region(sig, before, op['a'])
    if op['a'] != VA:
      f['neg_index'] = op['a'] < 0
  if op['name'] in ('getslice', 'setslice', 'delslice'):
    step = 1 if op['c'] == NONE else op['c']
    f['step'] = 'neg' if step < 0 else ('zero' if step == 0 else 'pos')
  if op['name'] in ('getattr', 'setattr', 'delattr'):
    n = op['a']
    f['name_kind'] = sig[n - 1]['k'] if n <= len(sig) else 'EX'
  return f


def sig_is_pure_list(sig):
  return len(sig) == 1 and sig[0]['k'] == 'VP'
