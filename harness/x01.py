"""X01 (extended coverage, not one of the listed properties) — fdl.update_callable on the argument store.

MC  : spec/MC_X01 (FdlRecall): every (signature, store state, new signature of the same
      length, drop flag) in the bound; laws Atomic, ResultWellFormed, KeepsValues,
      ReceivedByName.
S->C: each case is realised on a real fdl.Config: update_callable's outcome, the callable
      and the store afterwards, which names the Buildable accepts afterwards (the active
      signature), and what fdl.build then passes to the new callable.
Findings of this check are observations outside the listed properties: they are listed in
extended_findings.json and described in DESIGN.md, never repaired under a property's name.
"""
from __future__ import annotations

import copy
import os

import fiddle as fdl

from harness import common
from harness import pool
from harness import store
from harness import c01

PROP = 'X01'


def realise(sig, S):
  fn = pool.get_fn(sig, 'function')
  kwargs = {}
  for j, v in enumerate(S['ex']):
    if v:
      n = j + 1 if j < len(sig) else 101 + (j - len(sig))
      kwargs[pool.pname(n)] = pool.LEAVES[v]
  cfg = fdl.Config(fn, **kwargs)
  for i, p in enumerate(sig):
    if p['k'] == 'PK' and S['pre'][i]:
      setattr(cfg, pool.pname(i + 1), pool.LEAVES[S['pre'][i]])
    elif p['k'] == 'KO' and S['ko'][i]:
      setattr(cfg, pool.pname(i + 1), pool.LEAVES[S['ko'][i]])
    elif p['k'] == 'PO' and S['pre'][i]:
      cfg[i] = pool.LEAVES[S['pre'][i]]
  if S['va']:
    cfg[fdl.VARARGS:] = [pool.LEAVES[v] for v in S['va']]
  if not store.state_eq(store.project(cfg, sig), S):
    raise common.MachineryError(f'could not realise {S} for {sig}: {store.project(cfg, sig)}')
  return fn, cfg


def accepts(cfg, n):
  c = copy.deepcopy(cfg)
  try:
    setattr(c, pool.pname(n), pool.LEAVES[1])
    return True
  except Exception:  # pylint: disable=broad-except
    return False


def work(lines):
  common.quiet_logging()
  stats = {'lines': 0, 'nontrivial': 0}
  mism = []
  sample = None
  for line in lines:
    rec = common.decode_line(line)
    stats['lines'] += 1
    sig, sig2, S = rec['sig'], rec['sig2'], rec['S']
    fn, cfg = realise(sig, S)
    fn2 = pool.get_fn(sig2, 'function2')
    kinds_changed = [p['k'] for p in sig] != [p['k'] for p in sig2]
    # a set name that the new callable has only as a positional-only / variadic parameter
    named_like_positional = any(
        (p2['k'] in ('PO', 'VP', 'VK')) and (
            (p['k'] == 'PK' and S['pre'][i]) or (p['k'] == 'KO' and S['ko'][i]) or S['ex'][i])
        for i, (p, p2) in enumerate(zip(sig, sig2)))
    base = {'expected': rec['out'], 'drop': rec['drop'],
            'name_is_positional_in_new_callable': named_like_positional}
    def bad(clause, msg, **kw):
      mism.append((dict(base, clause=clause, **kw), {'case': {k: rec[k] for k in ('sig', 'S', 'sig2', 'drop')},
                                                      'message': msg}))
    try:
      fdl.update_callable(cfg, fn2, drop_invalid_args=rec['drop'])
      out, exc = 'ok', None
    except Exception as e:  # pylint: disable=broad-except
      out, exc = 'raise', type(e).__name__
    if out != rec['out']:
      bad('outcome', f'update_callable gave {out} ({exc}), expected {rec["out"]}', observed=out)
      continue
    active = sig2 if out == 'ok' else sig
    if out == 'ok':
      stats['nontrivial'] += 1
      if cfg.__fn_or_cls__ is not fn2:
        bad('callable-not-updated', 'the callable was not replaced')
      if not store.state_eq(store.project(cfg, sig2), rec['S2']):
        bad('arguments-differ', f'store {store.project(cfg, sig2)} expected {rec["S2"]}')
    else:
      if cfg.__fn_or_cls__ is not fn:
        bad('failed-update-changed-callable', 'a refused update replaced the callable')
      if not store.state_eq(store.project(cfg, sig), S):
        bad('failed-update-changed-arguments', f'store {store.project(cfg, sig)} expected {S}')
    # (assigning to **kwargs' own name is outside FdlStore's domain: not probed)
    probe = [n for n in range(len(sig)) if active[n]['k'] != 'VK']
    acc = [accepts(cfg, n + 1) if n in probe else rec['acc'][n] for n in range(len(sig))]
    if acc != rec['acc'] or accepts(cfg, 101) != rec['accx']:
      bad('active-signature' if out == 'ok' else 'failed-update-leaves-new-signature',
          f'after {out}: accepted names {acc} / extra {accepts(cfg, 101)}, expected {rec["acc"]} / {rec["accx"]}')
    if out == 'ok':
      pool.CALL_LOG.clear()
      try:
        result = fdl.build(cfg)
        bout = 'ok'
      except Exception as e:  # pylint: disable=broad-except
        bout, result = 'raise', None
      if bout != rec['bexp']['out']:
        bad('build-after-update', f'build gave {bout}, expected {rec["bexp"]["out"]}')
      elif bout == 'ok' and c01.observed_locals(sig2, result) != rec['bexp']['loc']:
        bad('build-after-update-locals', f'{c01.observed_locals(sig2, result)} expected {rec["bexp"]["loc"]}')
    if sample is None and out == 'ok' and kinds_changed and any(S['pre']) and rec['drop']:
      sample = {k: rec[k] for k in ('sig', 'S', 'sig2', 'drop', 'out', 'S2')}
  return stats, mism, sample


def main():
  v = common.Verdict(PROP, 'model_checking')
  v.kf = common.KnownFindings(os.path.join(common.VERIF, 'extended_findings.json'))
  quick = common.tier() == 'quick'
  consts = dict(MaxParams=2 if quick else 3, EmitOn=True, GapFix=True)
  totals = {'lines': 0, 'nontrivial': 0}
  with common.scratch() as wd:
    disp = common.Dispatcher(work, chunk=400)
    res = common.run_tlc('MC_X01', common.cfg_text(consts, invariants=['Atomic', 'ResultWellFormed', 'KeepsValues',
                                                                        'ReceivedByName', 'Emit']),
                         workdir=os.path.join(wd, 'mc'), on_json=disp)
    common.require_tlc_ok(res, 'MC_X01')
    for stats, mism, sample in disp.results():
      for k in totals:
        totals[k] += stats[k]
      for f, case in mism:
        v.mismatch(f, case)
      if sample:
        v.sample(sample)
  v.coverage.update({
      'states': res.distinct, 'transitions': res.generated,
      'traces_validated_against_impl': totals['lines'], 'evaluations': totals['lines'],
      'distinct_nontrivial': totals['nontrivial'],
      'rule': 'one case per initial state of MC_X01 (signature x store state x new signature x drop flag); '
              'non-trivial = the update is expected to succeed',
      'exhaustive': True, 'bounds': consts,
  })
  v.assumptions += ['extended coverage: not one of the listed properties; findings are observations']
  return v.finish()


if __name__ == '__main__':
  common.main_wrapper(main)
