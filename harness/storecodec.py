"""Codec round trips on every argument-store state of spec/FdlStore (used by C07 and C09).

TLC (MC_C01) enumerates the store states reachable through any constructor call and edits --
positional-only cells, *args, keyword-only cells, **kwargs entries incl. names that collide with
positional parameters.  Each state is realised on a real fdl.Config and sent through a codec;
the law is the identity on the store: project(codec(cfg)) = S, codec(cfg) == cfg, and the
codec's result builds what the original builds.
"""
from __future__ import annotations

import copy
import os
import pickle
import sys
import types

import fiddle as fdl
import zlib

from fiddle._src import casting
from fiddle._src import copying
from fiddle._src import tagging
from fiddle._src.experimental import serialization

from harness import common
from harness import pool
from harness import store

_MOD = 'fdlverif_sigfns'


def _importable(sig):
  """The recording function of a signature, reachable as a module-level symbol (for pyrefs)."""
  mod = sys.modules.get(_MOD)
  if mod is None:
    mod = types.ModuleType(_MOD)
    sys.modules[_MOD] = mod
    for n, leaf in enumerate(pool.LEAVES):
      setattr(pool, f'L{n}', leaf)
      serialization.register_constant('harness.pool', f'L{n}', compare_by_identity=True)
  name = 'fn_' + pool.sig_key(sig).replace(',', '_').replace('=', 'd')
  fn = getattr(mod, name, None)
  if fn is None:
    fn = pool.get_fn(sig, 'function2')
    fn.__module__, fn.__qualname__, fn.__name__ = _MOD, name, name
    setattr(mod, name, fn)
  return fn


COPY_CODECS = {
    'copy': copy.copy,
    'deepcopy': copy.deepcopy,
    'pickle': lambda c: pickle.loads(pickle.dumps(c)),
    'cast-there-and-back': lambda c: casting.cast(fdl.Config, casting.cast(fdl.Partial, c)),
    'copy_with': copying.copy_with,
    'deepcopy_with': copying.deepcopy_with,
}
JSON_CODECS = {
    'json': lambda c: serialization.load_json(serialization.dump_json(c)),
}
CODECS = COPY_CODECS     # set by the caller before the pool is created


def tag_targets(cfg, sig, S):
  """Every argument the tagging API can address: (key for the API, printable key), set or not."""
  out = []
  n = store.npos(sig)
  for i, p in enumerate(sig):
    if p['k'] == 'PO':
      out.append((i, f'#{i}'))
    elif p['k'] in ('PK', 'KO'):
      out.append((pool.pname(i + 1), pool.pname(i + 1)))
  if store.has(sig, 'VP'):
    for j in range(len(S['va']) + 1):          # also the first free *args cell
      out.append((n + j, f'#{n + j}'))
  if store.has(sig, 'VK'):
    out += [('x101', 'x101'), ('x102', 'x102')]
  return out


def apply_tags(cfg, sig, S):
  """Tags a deterministic selection of the addressable arguments (with and without a value)."""
  from harness import heap as H  # pylint: disable=g-import-not-at-top
  base = zlib.crc32((pool.sig_key(sig) + repr(S)).encode())
  for j, (key, _) in enumerate(tag_targets(cfg, sig, S)):
    pick = (base + 7 * j) % 4
    try:
      if pick == 0:
        tagging.add_tag(cfg, key, H.T0)
      elif pick == 1:
        tagging.set_tags(cfg, key, [H.T1, H.T2])
    except Exception:  # an argument the API refuses is no subject of this law  # pylint: disable=broad-except
      pass


def tag_view(cfg):
  from harness import heap as H  # pylint: disable=g-import-not-at-top
  return sorted((repr(k), H.tag_mask(ts)) for k, ts in cfg.__argument_tags__.items() if ts)


def realise(rec):
  sig = rec['sig']
  fn = _importable(sig)
  steps = rec['pre']
  try:
    cfg = store.construct(fn, sig, steps[0]['op'])
  except Exception:  # pylint: disable=broad-except
    return None
  for st in steps[1:]:
    out, _, _ = store.do_op(cfg, sig, st['op'])
    if out != st['out']:
      return None
  if not store.state_eq(store.project(cfg, sig), rec['S']):
    return None          # (judged by C01 / C03)
  return cfg


def work(lines):
  common.quiet_logging()
  stats = {'lines': 0, 'states': 0, 'round_trips': 0, 'positional': 0, 'tagged': 0}
  mism = []
  for line in lines:
    rec = common.decode_line(line)
    stats['lines'] += 1
    if not rec['alive']:
      continue
    cfg = realise(rec)
    if cfg is None:
      continue
    sig, S = rec['sig'], rec['S']
    stats['states'] += 1
    positional = any(isinstance(k, int) for k in cfg.__arguments__)
    stats['positional'] += 1 if positional else 0
    try:
      b0 = pool.inst_of(fdl.build(cfg)).args
      built0 = {k: pool.proj_val(v) if not isinstance(v, (tuple, dict)) else repr(v) for k, v in b0.items()}
    except Exception:  # pylint: disable=broad-except
      built0 = None
    stats['round_trips'] += len(CODECS)
    apply_tags(cfg, sig, S)
    if tag_view(cfg):
      stats['tagged'] = stats.get('tagged', 0) + 1
    mism += check_cfg(cfg, sig, S, CODECS, positional, built0)
  return stats, mism


def check_cfg(cfg, sig, S, codecs, positional, built0):
  mism = []
  if True:
    for name, codec in codecs.items():
      feat = {'clause': 'store-round-trip', 'codec': name, 'positional_arguments': positional}
      case = {'sig': pool.sig_key(sig), 'S': S}
      try:
        c2 = codec(cfg)
      except Exception as e:  # pylint: disable=broad-except
        mism.append((dict(feat, observed='raise:' + type(e).__name__), dict(case, message=f'{type(e).__name__}: {str(e)[:200]}')))
        continue
      S2 = store.project(c2, sig)
      if not store.state_eq(S, S2):
        mism.append((dict(feat, observed='store-differs'), dict(case, message=f'store after {name}: {S2}')))
        continue
      if not store.state_eq(store.project(cfg, sig), S):
        mism.append((dict(feat, observed='original-changed'), dict(case, message=f'{name} changed the original')))
      # tags (also on arguments without a value, on positional cells and on **kwargs names) survive,
      # and the result accepts tag edits on every argument the original accepts them on
      if tag_view(c2) != tag_view(cfg):
        mism.append((dict(feat, observed='tags-differ'),
                     dict(case, message=f'tags after {name}: {tag_view(c2)} expected {tag_view(cfg)}')))
      else:
        from harness import heap as H  # pylint: disable=g-import-not-at-top
        probe = codec(cfg) if name != 'copy' else copy.deepcopy(c2)
        for key, label in tag_targets(cfg, sig, S):
          ref = copy.deepcopy(cfg)
          try:
            tagging.get_tags(ref, key)
            tagging.add_tag(ref, key, H.T2)
            exp = 'ok'
          except Exception:  # pylint: disable=broad-except
            exp = 'raise'
          try:
            tagging.get_tags(probe, key)
            tagging.add_tag(probe, key, H.T2)
            got = 'ok'
          except Exception as e:  # pylint: disable=broad-except
            got = 'raise'
          if got != exp:
            mism.append((dict(feat, observed='tag-edit-on-result'),
                         dict(case, message=f'tag edit on {label} of the {name}: {got}, on the original: {exp}')))
            break
      try:
        eq = (c2 == cfg) and (cfg == c2)
      except Exception as e:  # pylint: disable=broad-except
        eq = False
      if not eq:
        mism.append((dict(feat, observed='not-equal'), dict(case, message=f'{name}(cfg) != cfg')))
      if built0 is not None:
        try:
          b1 = pool.inst_of(fdl.build(c2)).args
          built1 = {k: pool.proj_val(v) if not isinstance(v, (tuple, dict)) else repr(v) for k, v in b1.items()}
        except Exception as e:  # pylint: disable=broad-except
          built1 = 'raise:' + type(e).__name__
        if built1 != built0:
          mism.append((dict(feat, observed='builds-differently'), dict(case, message=f'{built1} vs {built0}')))
      if name in ('copy', 'deepcopy', 'pickle', 'deepcopy_with', 'copy_with'):
        # independence: an edit of the copy's positional view / keywords leaves the original alone
        try:
          if S['pre'] or S['va']:
            c2[0] = pool.LEAVES[9]
          for i, p in enumerate(sig):
            if p['k'] in ('PK', 'KO'):
              setattr(c2, pool.pname(i + 1), pool.LEAVES[9])
        except Exception:  # pylint: disable=broad-except
          pass
        if not store.state_eq(store.project(cfg, sig), S):
          mism.append((dict(feat, observed='copy-not-independent'),
                       dict(case, message=f'editing the {name} changed the original: {store.project(cfg, sig)}')))
  return mism


def run(v, wd, quick, codecs):
  """Enumerates FdlStore states with TLC and checks the codecs; returns stats."""
  global CODECS
  CODECS = codecs
  consts = dict(MaxParams=3, MaxVa=2, MaxOps=1 if quick else 2, EmitOn=True, GapFix=True)
  disp = common.Dispatcher(work, chunk=400)
  res = common.run_tlc('MC_C01', common.cfg_text(consts, view='AbsView', constraints=['Bound'],
                                                 invariants=['TypeOK', 'EmitState']),
                       workdir=os.path.join(wd, 'storecodec'), on_json=disp)
  common.require_tlc_ok(res, 'MC_C01 (store states for codecs)')
  totals = {}
  for stats, mism in disp.results():
    for k, x in stats.items():
      totals[k] = totals.get(k, 0) + x
    for f, case in mism:
      v.mismatch(f, case)
  totals['tlc_states'] = res.distinct
  # binding control: a codec that loses the positional arguments must be reported
  sig = [{'k': 'PO', 'd': False}, {'k': 'VP', 'd': False}]
  cfg = fdl.Config(_importable(sig), pool.LEAVES[1], pool.LEAVES[2])
  broken = {'control': lambda c: fdl.Config(c.__fn_or_cls__)}
  if not check_cfg(cfg, sig, store.project(cfg, sig), broken, True, None):
    raise common.MachineryError('store codec control: a codec that drops arguments was accepted')
  totals['control'] = 'argument-dropping codec rejected'
  return totals
