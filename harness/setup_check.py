"""setup_cmd: offline, idempotent.  Parses every specification module with SANY."""
import glob
import os
import subprocess
import sys

HERE = os.path.dirname(os.path.dirname(os.path.abspath(__file__)))
SPEC = os.path.join(HERE, 'spec')
CP = '/opt/veriftools/tla/tla2tools.jar:/opt/veriftools/tla/CommunityModules-deps.jar'


def main():
  os.makedirs(os.path.join(HERE, 'evidence', 'replays'), exist_ok=True)
  bad = 0
  mods = sorted(glob.glob(os.path.join(SPEC, '*.tla')))
  for m in mods:
    r = subprocess.run(['java', '-cp', CP, 'tla2sany.SANY', os.path.basename(m)],
                       cwd=SPEC, capture_output=True, text=True)
    out = r.stdout + r.stderr
    if r.returncode != 0 or 'error' in out.lower().replace('errors: 0', ''):
      if 'Semantic errors' in out or 'Parse Error' in out or 'Fatal' in out or r.returncode != 0:
        print('SANY FAILED:', m)
        print(out[-2000:])
        bad += 1
  print(f'setup: {len(mods)} modules parsed, {bad} failed')
  sys.exit(1 if bad else 0)


if __name__ == '__main__':
  main()
