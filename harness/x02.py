"""X02 (extended coverage, not one of the listed properties) — the bulk-edit API on the argument store.

MC  : spec/MC_X02 (FdlBulk): every (signature, store state, keyword list of distinct names)
      in the bound; laws OutcomeLaw (accepted iff every name is assignable, otherwise exactly
      the prefix before the first refused name is applied), PrefixLaw, ValuesLaw,
      PositionalUntouched, Commutes, Idempotent, CopyLaw, MoveLaw, ReceivedByName.
S->C: each case is realised on a real fdl.Config and replayed through fdl.assign,
      fdl.copy_with, fdl.deepcopy_with and mutate_buildable.move_buildable_internals: outcome,
      the store afterwards (also after a refusal: the applied prefix), the original of a copy,
      one history entry per applied keyword, what fdl.build then passes.
Findings of this check are observations outside the listed properties (extended_findings.json).
"""
from __future__ import annotations

import os

import fiddle as fdl
from fiddle._src import mutate_buildable

from harness import common
from harness import pool
from harness import store
from harness import c01
from harness import x01

PROP = 'X02'


def hist_len(cfg, name):
  return len(cfg.__argument_history__.get(name, ()))


def work(lines):
  common.quiet_logging()
  stats = {'lines': 0, 'nontrivial': 0}
  mism = []
  sample = None
  for line in lines:
    rec = common.decode_line(line)
    stats['lines'] += 1
    sig, S, kws, sig2 = rec['sig'], rec['S'], rec['kws'], rec['sig2']
    kwargs = {pool.pname(n): pool.LEAVES[v] for n, v in kws}
    base = {'expected': rec['out'], 'n_keywords': len(kws)}
    def bad(clause, msg, **kw):
      mism.append((dict(base, clause=clause, **kw),
                   {'case': {k: rec[k] for k in ('sig', 'S', 'kws')}, 'message': msg}))
    def outcome(thunk):
      try:
        return 'ok', thunk(), None
      except Exception as e:  # pylint: disable=broad-except
        return 'raise', None, type(e).__name__

    # --- fdl.assign -------------------------------------------------------
    fn, cfg = x01.realise(sig, S)
    before = {k: hist_len(cfg, k) for k in kwargs}
    out, _, exc = outcome(lambda: fdl.assign(cfg, **kwargs))
    if out != rec['out']:
      bad('assign-outcome', f'assign gave {out} ({exc}), expected {rec["out"]}', observed=out)
      continue
    if out == 'ok' and kws:
      stats['nontrivial'] += 1
    if not store.state_eq(store.project(cfg, sig), rec['S2']):
      bad('assign-store', f'after assign ({out}) store {store.project(cfg, sig)} expected {rec["S2"]}')
    for k, (name, _) in enumerate(kws):
      want = 1 if k < rec['done'] else 0
      got = hist_len(cfg, pool.pname(name)) - before[pool.pname(name)]
      if got != want:
        bad('assign-history', f'keyword #{k + 1} ({pool.pname(name)}): {got} history entries added, expected {want}')
    if cfg.__fn_or_cls__ is not fn:
      bad('assign-callable', 'assign changed the callable')
    if out == 'ok':
      pool.CALL_LOG.clear()
      bout, result, _ = outcome(lambda: fdl.build(cfg))
      if bout != rec['bexp']['out']:
        bad('build-after-assign', f'build gave {bout}, expected {rec["bexp"]["out"]}')
      elif bout == 'ok' and c01.observed_locals(sig, result) != rec['bexp']['loc']:
        bad('build-after-assign-locals', f'{c01.observed_locals(sig, result)} expected {rec["bexp"]["loc"]}')

    # --- fdl.copy_with / fdl.deepcopy_with ---------------------------------
    for api_name, api in (('copy_with', fdl.copy_with), ('deepcopy_with', fdl.deepcopy_with)):
      fn, orig = x01.realise(sig, S)
      args_before = dict(orig.__arguments__)
      out, new, exc = outcome(lambda: api(orig, **kwargs))  # pylint: disable=cell-var-from-loop
      if out != rec['out']:
        bad(f'{api_name}-outcome', f'{api_name} gave {out} ({exc}), expected {rec["out"]}', observed=out)
        continue
      if not store.state_eq(store.project(orig, sig), S) or any(
          orig.__arguments__.get(k) is not v for k, v in args_before.items()):
        bad(f'{api_name}-changed-original', f'original became {store.project(orig, sig)}, was {S}')
      if any(hist_len(orig, k) != before[k] for k in kwargs):
        bad(f'{api_name}-original-history', 'the original got history entries')
      if out == 'ok':
        if new is orig or new.__arguments__ is orig.__arguments__:
          bad(f'{api_name}-aliases-original', 'the result shares its argument store with the original')
        if type(new) is not type(orig) or new.__fn_or_cls__ is not fn:
          bad(f'{api_name}-type', 'type or callable of the result differ')
        if not store.state_eq(store.project(new, sig), rec['S2']):
          bad(f'{api_name}-store', f'result store {store.project(new, sig)} expected {rec["S2"]}')
        else:
          pool.CALL_LOG.clear()
          bout, result, _ = outcome(lambda: fdl.build(new))  # pylint: disable=cell-var-from-loop
          if bout != rec['bexp']['out'] or (
              bout == 'ok' and c01.observed_locals(sig, result) != rec['bexp']['loc']):
            bad(f'build-after-{api_name}', f'build gave {bout}, expected {rec["bexp"]}')

    # --- move_buildable_internals ------------------------------------------
    fn, src = x01.realise(sig, S)
    fn2 = pool.get_fn(sig2, 'function2')
    dst = fdl.Config(fn2)
    out, _, exc = outcome(lambda: mutate_buildable.move_buildable_internals(source=src, destination=dst))
    if out != 'ok':
      bad('move-outcome', f'move_buildable_internals raised {exc}')
    else:
      if dst.__fn_or_cls__ is not fn or not store.state_eq(store.project(dst, sig), S):
        bad('move-destination', f'destination store {store.project(dst, sig)} expected {S}')
      if src.__fn_or_cls__ is not fn or not store.state_eq(store.project(src, sig), S):
        bad('move-changed-source', f'source became {store.project(src, sig)}')
      acc = [x01.accepts(dst, n + 1) for n in range(len(sig)) if sig[n]['k'] != 'VK']
      want = [x01.accepts(src, n + 1) for n in range(len(sig)) if sig[n]['k'] != 'VK']
      if acc != want or x01.accepts(dst, 101) != x01.accepts(src, 101):
        bad('move-active-signature', f'destination accepts {acc}, source accepts {want}')
      pool.CALL_LOG.clear()
      bout, result, _ = outcome(lambda: fdl.build(dst))
      if bout != rec['bsrc']['out'] or (
          bout == 'ok' and c01.observed_locals(sig, result) != rec['bsrc']['loc']):
        bad('build-after-move', f'build gave {bout}, expected {rec["bsrc"]}')
    # a destination of another Buildable type is refused and left alone
    part = fdl.Partial(fn2)
    out, _, _ = outcome(lambda: mutate_buildable.move_buildable_internals(source=src, destination=part))
    if out != 'raise':
      bad('move-type-mismatch-accepted', 'Config internals were moved into a Partial')
    elif part.__fn_or_cls__ is not fn2 or part.__arguments__:
      bad('move-type-mismatch-residue', 'a refused move changed the destination')

    if sample is None and rec['out'] == 'raise' and rec['done'] >= 1:
      sample = {k: rec[k] for k in ('sig', 'S', 'kws', 'out', 'done', 'S2')}
  return stats, mism, sample


LAWS = ['OutcomeLaw', 'PrefixLaw', 'ResultWellFormed', 'ValuesLaw', 'PositionalUntouched', 'Commutes',
        'Idempotent', 'CopyLaw', 'MoveLaw', 'ReceivedByName']


def main():
  v = common.Verdict(PROP, 'model_checking')
  v.kf = common.KnownFindings(os.path.join(common.VERIF, 'extended_findings.json'))
  quick = common.tier() == 'quick'
  consts = dict(MaxParams=2 if quick else 3, MaxKws=2 if quick else 3, EmitOn=True, GapFix=True)
  totals = {'lines': 0, 'nontrivial': 0}
  with common.scratch() as wd:
    disp = common.Dispatcher(work, chunk=400)
    res = common.run_tlc('MC_X02', common.cfg_text(consts, invariants=LAWS + ['Emit']),
                         workdir=os.path.join(wd, 'mc'), on_json=disp)
    common.require_tlc_ok(res, 'MC_X02')
    for stats, mism, sample in disp.results():
      for k in totals:
        totals[k] += stats[k]
      for f, case in mism:
        v.mismatch(f, case)
      if sample:
        v.sample(sample)
  v.coverage.update({
      'states': res.distinct, 'transitions': res.generated,
      'traces_validated_against_impl': totals['lines'], 'evaluations': totals['lines'],
      'distinct_nontrivial': totals['nontrivial'],
      'rule': 'one case per initial state of MC_X02 (signature x store state x keyword list x destination '
              'signature); replayed through assign, copy_with, deepcopy_with and move_buildable_internals; '
              'non-trivial = a non-empty keyword list that is accepted',
      'exhaustive': True, 'bounds': consts, 'laws': LAWS,
  })
  v.assumptions += ['extended coverage: not one of the listed properties; findings are observations',
                    'assign is specified as non-atomic (the applied prefix stays), which is what its '
                    'documentation (equivalent to consecutive assignments) describes']
  return v.finish()


if __name__ == '__main__':
  common.main_wrapper(main)
