"""C13 — the generated fiddler does what apply_diff does.

MC  : spec/MC_C10 supplies the pairs (old, new); spec/FdlFiddler states the
      statement-level property of the emitted function (DefinedBeforeUse).
Judge: for every pair the diff is built, and for each naming mode and with /
      without `old` the emitted module is compiled, parsed with `ast` into the
      abstract statement list, executed on a deep copy of old and projected; the
      record is judged by spec/Trace_C13 (compiles, defined-before-use, does not
      raise, result equals apply_diff's).  Plus hand-assembled diffs with
      references among new shared values and into moved parts of old.
"""
from __future__ import annotations

import ast
import builtins
import copy
import json
import os
import random

import fiddle as fdl
from fiddle import daglish
from fiddle._src import diffing
from fiddle._src import tagging
from fiddle._src.codegen import codegen_diff

from harness import common
from harness import heap as H
from harness import c02
from harness import c10

PROP = 'C13'
MODES = [('explicit', True), ('explicit', False), ('short', True), ('short', False)]


def abstract_statements(code):
  """(env ids, stmts) of the function `fiddler` in `code`; names interned per record."""
  tree = ast.parse(code)
  names = {}
  def nid(n):
    return names.setdefault(n, len(names) + 1)
  env = set(dir(builtins))
  fn = None
  for node in tree.body:
    if isinstance(node, (ast.Import, ast.ImportFrom)):
      for a in node.names:
        env.add((a.asname or a.name).split('.')[0])
    elif isinstance(node, ast.FunctionDef):
      fn = node
  if fn is None:
    return None, None
  for a in fn.args.args:
    env.add(a.arg)
  stmts = []
  for st in fn.body:
    defs, uses = [], []
    for n in ast.walk(st):
      if isinstance(n, ast.Name):
        (defs if isinstance(n.ctx, ast.Store) else uses).append(n.id)
    stmts.append({'defs': sorted({nid(d) for d in defs}), 'uses': sorted({nid(u) for u in uses})})
  return sorted(nid(e) for e in env if e in names), stmts


def records_for(old, new, label):
  """One record per naming mode x with/without old."""
  recs = []
  try:
    d = diffing.build_diff(old, new)
    tgt = copy.deepcopy(old)
    diffing.apply_diff(d, tgt)
    expected, _ = H.project_sorted(tgt)
  except Exception:  # judged by C10  # pylint: disable=broad-except
    return recs
  for naming, with_old in MODES:
    rec = {'tid': 0, 'label': label, 'naming': naming, 'with_old': with_old, 'compiled': 'F', 'env': [],
           'stmts': [], 'ran': 'not-run', 'result': [], 'expected': expected, 'code': ''}
    try:
      code = codegen_diff.fiddler_from_diff(d, old=old if with_old else None,
                                            variable_naming=naming).code
      rec['code'] = code
      compiled = compile(code, '<fiddler>', 'exec')
      rec['compiled'] = 'T'
    except Exception as e:  # pylint: disable=broad-except
      rec['ran'] = 'emit-raises:' + type(e).__name__
      recs.append(rec)
      continue
    env, stmts = abstract_statements(code)
    if stmts is None:
      rec['compiled'] = 'F'
      recs.append(rec)
      continue
    rec['env'], rec['stmts'] = env, stmts
    ns = {}
    try:
      exec(compiled, ns)  # pylint: disable=exec-used
      tgt2 = copy.deepcopy(old)
      ns['fiddler'](tgt2)
      rec['ran'] = 'ok'
      rec['result'] = H.project_sorted(tgt2)[0]
    except Exception as e:  # pylint: disable=broad-except
      rec['ran'] = 'raise:' + type(e).__name__
    recs.append(rec)
  return recs


def work(lines):
  recs = []
  for line in lines:
    rec = common.decode_line(line)
    old, _ = H.realize(rec['old'])
    new, _ = H.realize(rec['new'])
    for r in records_for(old, new, rec['rw']):
      r['old'], r['new'] = rec['old'], rec['new']
      recs.append(r)
  return {'lines': len(lines), 'nontrivial': 0}, [], recs


def handmade(rng, n):
  """Diffs with references among new shared values and into moved / replaced parts of old."""
  recs = []
  for _ in range(n):
    a = fdl.Config(H.g4, s1=rng.randint(1, 3))
    b = fdl.Config(H.ClsA, s1=a, s2=[a, rng.randint(1, 3)])
    old = fdl.Config(H.f1, s1=b, s2={'k1': a}, s3=rng.randint(1, 3))
    new = copy.deepcopy(old)
    sh = fdl.Config(H.ClsB, s1=new.s1.s1)              # new shared value referencing a part of old
    lst = [sh, new.s1]                                  # new shared list referencing another shared value
    choice = rng.randint(0, 3)
    if choice == 0:
      new.s3 = sh
      new.s2['k2'] = sh
      new.s1 = lst
    elif choice == 1:
      new.s1, new.s3 = new.s2['k1'], new.s1             # move parts around
      new.s2 = [lst, lst]
    elif choice == 2:
      new.s2 = {'k1': lst, 'k3': [lst, sh]}
      del new.s1
    else:
      c = fdl.Config(H.g4)
      tagging.add_tag(c, 's2', H.T1)                    # tagged argument without value on a new Buildable
      new.s3 = [c, c]
      tagging.add_tag(new, 's1', H.T0)
    for r in records_for(old, new, f'handmade-{choice}'):
      r['old'], r['new'] = H.project(old)[0], H.project(new)[0]
      recs.append(r)
  return recs


def assembled_diffs():
  """Hand-assembled Diff objects (not producible by build_diff): references into an aliased, replaced part."""
  recs = []
  A, I, K = daglish.Attr, daglish.Index, daglish.Key
  def mk():
    x = fdl.Config(H.g4, s1=1)
    shared = fdl.Config(H.ClsA, s1=x, s2=2)
    return fdl.Config(H.f1, s1=shared, s2=shared, s3=[0])
  diffs = [
      ('ref-through-second-alias',
       diffing.Diff(changes=(diffing.ModifyValue((A('s1'), A('s1')), 5),
                             diffing.ModifyValue((A('s3'),),
                                                 [diffing.Reference('old', (A('s2'), A('s1')))])),
                    new_shared_values=())),
      ('change-below-second-alias',
       diffing.Diff(changes=(diffing.ModifyValue((A('s1'), A('s1')), fdl.Config(H.g4, s1=9)),
                             diffing.ModifyValue((A('s2'), A('s1'), A('s1')), 7)),
                    new_shared_values=())),
      ('shared-chain',
       diffing.Diff(changes=(diffing.ModifyValue((A('s3'),),
                                                 [diffing.Reference('new_shared_values', (I(2),)),
                                                  diffing.Reference('new_shared_values', (I(2),))]),),
                    new_shared_values=(fdl.Config(H.g4, s1=4),
                                       [diffing.Reference('new_shared_values', (I(0),)),
                                        diffing.Reference('new_shared_values', (I(0),))],
                                       {'k1': diffing.Reference('new_shared_values', (I(1),)),
                                        'k2': diffing.Reference('new_shared_values', (I(1),))}))),
  ]
  for label, d in diffs:
    old = mk()
    try:
      tgt = copy.deepcopy(old)
      diffing.apply_diff(d, tgt)
      expected = H.project_sorted(tgt)[0]
    except Exception as e:  # a diff apply_diff itself rejects is no test of the fiddler
      continue
    for naming, with_old in MODES:
      rec = {'tid': 0, 'label': 'assembled-' + label, 'naming': naming, 'with_old': with_old, 'compiled': 'F',
             'env': [], 'stmts': [], 'ran': 'not-run', 'result': [], 'expected': expected, 'code': '',
             'old': H.project(old)[0], 'new': expected}
      try:
        code = codegen_diff.fiddler_from_diff(d, old=old if with_old else None, variable_naming=naming).code
        rec['code'] = code
        compiled = compile(code, '<fiddler>', 'exec')
        rec['compiled'] = 'T'
        rec['env'], rec['stmts'] = abstract_statements(code)
        ns = {}
        exec(compiled, ns)  # pylint: disable=exec-used
        t2 = copy.deepcopy(old)
        ns['fiddler'](t2)
        rec['ran'] = 'ok'
        rec['result'] = H.project_sorted(t2)[0]
      except Exception as e:  # pylint: disable=broad-except
        rec['ran'] = 'raise:' + type(e).__name__
      recs.append(rec)
  return recs


def judge(v, recs, wd):
  os.makedirs(wd, exist_ok=True)
  for n, r in enumerate(recs):
    r['tid'] = n + 1
  verdicts = {}
  def on_json(line):
    r = common.decode_line(line)
    verdicts[r['tid']] = r
  n = max(1, min(common.NCPU, len(recs) // 300 or 1))
  slices = [recs[k::n] for k in range(n)]
  keys = ('tid', 'compiled', 'env', 'stmts', 'ran', 'result', 'expected')
  import concurrent.futures as cf
  def run(k):
    path = os.path.join(wd, f'c13-{k}.json')
    with open(path, 'w') as f:
      json.dump([{kk: r[kk] for kk in keys} for r in slices[k]], f)
    return common.run_tlc('Trace_C13', common.cfg_text({}, init='TInit', next_='TNext'),
                          workdir=os.path.join(wd, f'tr{k}'), on_json=on_json, workers=1,
                          env={'TRACE_FILE': path})
  with cf.ThreadPoolExecutor(n) as ex:
    for res in ex.map(run, range(n)):
      common.require_tlc_ok(res, 'Trace_C13')
  if len(verdicts) != len(recs):
    raise common.MachineryError(f'Trace_C13 judged {len(verdicts)} of {len(recs)} records')
  acc = 0
  for r in recs:
    vd = verdicts[r['tid']]
    if vd['ok']:
      acc += 1
      continue
    v.mismatch({'clause': vd['failed'], 'naming': r['naming'], 'with_old': r['with_old'],
                'kind': r['label'].split('-')[0], 'ran': r['ran']},
               {'old': r.get('old'), 'new': r.get('new'), 'label': r['label'],
                'message': f'{vd["failed"]} (statement {vd["at"]}); ran={r["ran"]}\n{r["code"][:900]}'})
  return acc


def main():
  v = common.Verdict(PROP, 'translation_validation')
  quick = common.tier() == 'quick'
  with common.scratch() as wd:
    allrecs = []
    def collect(lines):
      return work(lines)
    # reuse C10's pair generation, collecting records instead of mismatches
    base = dict(NLeaves=1, NFns=1, EmitOn=True, AliasFix=True)
    runs = [dict(base, MaxObjs=3, MaxItems=2, NKeys=1, NSlots=2, KindSet={'config', 'list'},
                 TagChoices={0}, UnsetTagged=False, MaxEdits=1),
            dict(base, MaxObjs=2, MaxItems=2, NKeys=1, NSlots=2, KindSet={'config', 'dict', 'tuple'},
                 TagChoices={0, 1}, UnsetTagged=True, MaxEdits=1)]
    if not quick:
      # (sized with TLC alone: about 29 k + 40 k + 31 k pairs, four programs each; five kinds with two edits
      # over three objects would be millions of programs)
      runs = runs + [dict(base, MaxObjs=2, MaxItems=2, NKeys=2, NSlots=2,
                          KindSet={'config', 'partial', 'list', 'dict', 'tuple'},
                          TagChoices={0, 1}, UnsetTagged=True, MaxEdits=1),
                     dict(base, MaxObjs=3, MaxItems=2, NKeys=1, NSlots=2, KindSet={'config', 'list', 'tuple'},
                          TagChoices={0}, UnsetTagged=False, MaxEdits=1)]
    states = trans = 0
    for n, c in enumerate(runs):
      disp = common.Dispatcher(work, chunk=200)
      r = common.run_tlc('MC_C10', common.cfg_text(c, constraints=['Prune'], invariants=['Emit']),
                         workdir=os.path.join(wd, f'mc{n}'), on_json=disp)
      common.require_tlc_ok(r, 'MC_C10')
      states += r.distinct
      trans += r.generated
      for _, _, recs in disp.results():
        allrecs += recs
    rng = random.Random(common.seed() * 256203221 + 14)
    allrecs += handmade(rng, 60 if quick else 600)
    for old, new, label in c10.handmade_pairs(rng, 40 if quick else 400):
      if label == 'node-types':
        continue      # (a user subclass of fdl.Config has no code converter: the generator refuses it loudly)
      for r in records_for(old, new, 'c10' + label):
        r['old'], r['new'] = H.project(old)[0], H.project(new)[0]
        allrecs.append(r)
    allrecs += assembled_diffs()
    # binding demo: a fiddler that uses a name before defining it must be rejected
    good = next(r for r in allrecs if r['ran'] == 'ok' and len(r['stmts']) >= 1)
    bad = dict(good, stmts=[{'defs': [], 'uses': [999]}] + good['stmts'])
    vneg = common.Verdict(PROP, 'translation_validation')
    vneg.kf.entries = []
    if judge(vneg, [dict(bad)], os.path.join(wd, 'neg')):
      raise common.MachineryError('Trace_C13 accepted a use before definition')
    accepted = judge(v, allrecs, os.path.join(wd, 'judge'))
  programs = len(allrecs)
  v.coverage.update({
      'programs': programs, 'disagreements_checked': programs - accepted,
      'states': states, 'transitions': trans,
      'evaluations': programs, 'distinct_nontrivial': sum(1 for r in allrecs if len(r['stmts']) >= 2),
      'rule': 'one program = the fiddler emitted for (pair from MC_C10 or hand-assembled diff, naming mode, with / '
              'without old); non-trivial = at least two statements',
      'accepted': accepted, 'modes': [f'{a}/{"old" if b else "no-old"}' for a, b in MODES],
      'exhaustive': True,
  })
  ex = next((r for r in allrecs if len(r['stmts']) >= 3), allrecs[0])
  v.sample({'old': ex.get('old'), 'new': ex.get('new'), 'naming': ex['naming'], 'code': ex['code'][:1200]})
  v.assumptions += ['pairs on which build_diff / apply_diff themselves fail are judged by C10 and skipped here']
  return v.finish()


if __name__ == '__main__':
  common.main_wrapper(main)
