#!/bin/sh
# Offline, idempotent: syntax-check every specification module.
set -e
cd "$(dirname "$0")"
exec /venv/bin/python harness/setup_check.py
