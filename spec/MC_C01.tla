------------------------------- MODULE MC_C01 -------------------------------
(***************************************************************************)
(* C01: every store state reachable through the constructor (any call,     *)
(* valid or not) and a few edits, with the expected result of fdl.build.   *)
(* One JSON line per distinct state (emitted from an invariant).           *)
(***************************************************************************)
EXTENDS FdlCall, Json

CONSTANTS MaxParams, MaxVa, MaxOps, EmitOn

VARIABLES sig, S, hist, alive

Leaves == {1, 2, 3}
Sigs == SigsUpTo(MaxParams)

ArgLeaf(i) == ((i - 1) % 3) + 1
KwLeaf(n)  == (n % 3) + 1
NameKindOf(s, n) == IF n > 100 THEN "EX" ELSE s[n].kind

\* signature.bind_partial( *args, **kwargs ): which constructor calls are accepted
CtorValid(s, na, kws) ==
  /\ (na <= NPos(s) \/ HasVP(s))
  /\ \A n \in kws :
       CASE NameKindOf(s, n) = "PK" -> n > na
         [] NameKindOf(s, n) = "KO" -> TRUE
         \* inspect.Signature.bind accepts a keyword named like a positional-only
         \* parameter only when that parameter is filled positionally (a CPython
         \* limitation; the constructor's verdict is outside C01's statement)
         [] NameKindOf(s, n) = "PO" -> HasVK(s) /\ n <= na
         [] OTHER -> HasVK(s)
Constructed(s, na, kws) ==
  [pre |-> [i \in 1..NPos(s) |-> IF i <= na THEN ArgLeaf(i)
                                  ELSE IF i \in kws /\ s[i].kind = "PK" THEN KwLeaf(i) ELSE UNSET],
   va  |-> [j \in 1..(IF na > NPos(s) THEN na - NPos(s) ELSE 0) |-> ArgLeaf(NPos(s) + j)],
   ko  |-> [i \in 1..Len(s) |-> IF s[i].kind = "KO" /\ i \in kws THEN KwLeaf(i) ELSE UNSET],
   ex  |-> [j \in 1..Len(s) + 2 |->
              IF ExName(s, j) \in kws /\ (j > Len(s) \/ s[j].kind \in {"PO", "VP", "VK"})
              THEN KwLeaf(ExName(s, j)) ELSE UNSET]]
CtorOp(na, kws) == Op("construct", na, 0, 0, SetToSeq(kws))

Init == /\ sig \in Sigs
        /\ \E na \in 0..(NPos(sig) + MaxVa) :
             \E kws \in SUBSET ((1..Len(sig)) \cup {101}) :
               /\ \A n \in kws : NameKindOf(sig, n) = "PO" /\ HasVK(sig) => n <= na
               /\ IF CtorValid(sig, na, kws)
                  THEN /\ S = Constructed(sig, na, kws) /\ alive = TRUE
                       /\ hist = <<[op |-> CtorOp(na, kws), out |-> "ok", S |-> S]>>
                  ELSE /\ S = EmptyState(sig) /\ alive = FALSE
                       /\ hist = <<[op |-> CtorOp(na, kws), out |-> "raise", S |-> S]>>

Len0 == Len(L(S))
OpsOf ==
       {Op("setitem", i, 0, 0, <<3>>) : i \in 0..Len0 - 1}
  \cup {Op("delitem", i, 0, 0, <<>>) : i \in 0..Len0 - 1}
  \cup {Op("setattr", n, 0, 0, <<2>>) : n \in {i \in 1..Len(sig) : sig[i].kind \in {"PK", "KO"}}
                                              \cup (IF HasVK(sig) THEN {102} ELSE {})}
  \cup {Op("delattr", n, 0, 0, <<>>) : n \in {i \in 1..Len(sig) : sig[i].kind \in {"PK", "KO"}}}
  \cup (IF HasVP(sig) THEN {Op("setslice", VA, NONE, NONE, vs) : vs \in {<<>>, <<1>>, <<2, 3>>}}
        ELSE {})

Next ==
  /\ alive
  /\ Len(hist) <= MaxOps
  /\ \E op \in OpsOf :
       LET r == Apply(sig, S, op) IN
       /\ r.out = "ok"
       /\ S' = r.S
       /\ UNCHANGED <<sig, alive>>
       /\ hist' = Append(hist, [op |-> op, out |-> r.out, S |-> r.S])

AbsView == <<sig, S, alive, IF alive THEN <<>> ELSE hist>>
Bound == Len(S.va) <= MaxVa
SigCode(s) == [i \in 1..Len(s) |-> [k |-> s[i].kind, d |-> s[i].dflt]]

TypeOK == WellFormed(sig, S)

\* level B refines level A in every reachable state
Refines == alive => ImplMatchesSpec(sig, S)

\* the clause "rather than binding any value to a different parameter": whenever
\* the call goes through, each parameter receives its own cell or its default
NoMisbinding ==
  alive => LET r == PyCall(sig, Transform(sig, S)) IN
           r.out = "ok" =>
             \A i \in 1..Len(sig) : sig[i].kind \in {"PO", "PK", "KO"} =>
                r.loc[i] \in {<<Cell(sig, S, i)>>, <<Dflt(i)>>}

EmitState ==
  EmitOn => PrintT(ToJson([sig |-> SigCode(sig), pre |-> hist, alive |-> alive, S |-> S,
                           bexp |-> IF alive THEN BuildExpect(sig, S) ELSE CallRaise]))
=============================================================================
