------------------------------ MODULE Trace_C17 ------------------------------
(* C->S for C17: an event (api, pre, post) is a CallApi step iff post = pre. *)
EXTENDS Sequences, Integers, TLC, Json, IOUtils
Traces == JsonDeserialize(IOEnv.TRACE_FILE)
VARIABLE i
TInit == i = 0
TNext == /\ i < Len(Traces)
         /\ i' = i + 1
         /\ LET t == Traces[i + 1] IN
            PrintT(ToJson([tid |-> t.tid, ok |-> t.post = t.pre]))
=============================================================================
