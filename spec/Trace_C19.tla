------------------------------ MODULE Trace_C19 ------------------------------
(***************************************************************************)
(* C->S for C19: one record per executed schedule of real threads under the *)
(* deterministic scheduler.  For every thread: its program, the result      *)
(* token it produced, the sequence ids of the history entries it created,   *)
(* and, per region of its program (outside any build / inside its own       *)
(* build's callable / inside its own suspend_tracking block), the set of    *)
(* values of the guard flag and of the tracking flag it observed at its     *)
(* scheduling points (bitmask: 1 = saw FALSE, 2 = saw TRUE).                *)
(* Accepted iff the results are those of FdlThreads' Alone (as if alone),   *)
(* sequence ids are unique and increasing per thread, and the observed      *)
(* flags are per-thread: a thread never sees the guard outside its own      *)
(* build nor tracking switched off outside its own suspend block.           *)
(***************************************************************************)
EXTENDS Integers, Sequences, FiniteSets, TLC, Json, IOUtils

Traces == JsonDeserialize(IOEnv.TRACE_FILE)
VARIABLE i

Alone(p) == CASE p = "build" -> "built" [] p = "nested" -> "nested-rejected"
              [] p = "fail" -> "raised-proxy" [] p = "edit" -> "edited" [] p = "copy" -> "copied"
              [] OTHER -> "sig-ok"
AloneEntries(p) == IF p = "edit" THEN 3 ELSE 0    \* callable + two tracked edits

SawTrue(m) == (m \div 2) % 2 = 1
SawFalse(m) == m % 2 = 1

RegionOK(r) ==
  CASE r.name = "outside" -> ~SawTrue(r.guard) /\ ~SawFalse(r.tracking)
    [] r.name = "own-callable" -> ~SawFalse(r.guard)
    [] r.name = "own-suspend" -> ~SawTrue(r.tracking) /\ ~SawTrue(r.guard)
    [] OTHER -> TRUE            \* inside fdl.build, before / after the callable: either value

Failed(t) ==
  LET th == t.threads IN
  IF \E n \in 1..Len(th) : th[n].result # Alone(th[n].prog) THEN "result-not-as-if-alone"
  ELSE IF \E n \in 1..Len(th) : th[n].prog = "edit" /\ Len(th[n].seqs) # AloneEntries(th[n].prog)
       THEN "history-length"
  ELSE IF \E n \in 1..Len(th) : \E a \in 1..Len(th[n].seqs) - 1 : th[n].seqs[a] >= th[n].seqs[a + 1]
       THEN "sequence-not-increasing"
  ELSE IF \E n, m \in 1..Len(th) : n # m /\ \E a \in 1..Len(th[n].seqs) : \E b \in 1..Len(th[m].seqs) :
            th[n].seqs[a] = th[m].seqs[b] THEN "sequence-not-unique"
  ELSE IF \E n \in 1..Len(th) : \E k \in 1..Len(th[n].regions) : ~RegionOK(th[n].regions[k])
       THEN "flag-not-per-thread"
  ELSE ""

TInit == i = 0
TNext == /\ i < Len(Traces)
         /\ i' = i + 1
         /\ LET t == Traces[i + 1]  f == Failed(t) IN
            PrintT(ToJson([tid |-> t.tid, ok |-> f = "", failed |-> f]))
=============================================================================
