------------------------------ MODULE Trace_C12 ------------------------------
(* C12 judge: one record per (configuration, generator, options). *)
EXTENDS FdlCodegen, Json, IOUtils
Traces == JsonDeserialize(IOEnv.TRACE_FILE)
VARIABLE i
TInit == i = 0
TNext == /\ i < Len(Traces)
         /\ i' = i + 1
         /\ LET t == Traces[i + 1]  f == Judge(t.heap, t.out, t.result) IN
            PrintT(ToJson([tid |-> t.tid, ok |-> f = "", failed |-> f]))
=============================================================================
