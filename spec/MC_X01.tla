------------------------------- MODULE MC_X01 -------------------------------
(***************************************************************************)
(* X01: every (signature, store state without history, new signature,      *)
(* drop flag) in the bound; laws of UpdateCallable; one line per case for   *)
(* the replay on the real fdl.update_callable.                              *)
(***************************************************************************)
EXTENDS FdlRecall, Json

CONSTANTS MaxParams, EmitOn

VARIABLES sig, S, sig2, drop
vars == <<sig, S, sig2, drop>>

Vals == {UNSET, 1}
States(s) ==
  {st \in [pre : [1..NPos(s) -> Vals], va : {<<>>, <<2>>}, ko : [1..Len(s) -> Vals],
           ex : [1..Len(s) + 2 -> Vals]] :
      /\ WellFormed(s, st)
      \* (CPython's Signature.bind refuses a keyword named like an unfilled positional-only parameter)
      /\ \A i \in 1..Len(s) : s[i].kind = "PO" => st.ex[i] = UNSET}

Init ==
  /\ sig \in SigsUpTo(MaxParams)
  /\ S \in States(sig)
  /\ sig2 \in {s \in SigsUpTo(MaxParams) : Len(s) = Len(sig)}
  /\ drop \in BOOLEAN
Next == UNCHANGED vars

R == UpdateCallable(sig, S, sig2, drop)

Atomic == R.out = "raise" => R.sig = sig /\ R.S = S
ResultWellFormed == R.out = "ok" => WellFormed(R.sig, R.S)
KeepsValues ==
  R.out = "ok" =>
    /\ NamesSet(R.sig, R.S) \subseteq NamesSet(sig, S)
    /\ \A n \in NamesSet(R.sig, R.S) : ValOf(R.sig, R.S, n) = ValOf(sig, S, n)
    /\ (drop \/ NamesSet(R.sig, R.S) = NamesSet(sig, S))
\* built afterwards, every kept name is received under that name (or the build fails only
\* because a required parameter of the new callable is unset)
ReceivedByName ==
  R.out = "ok" =>
    LET b == BuildExpect(R.sig, R.S) IN
    b.out = "ok" =>
      \A n \in NamesSet(R.sig, R.S) :
        IF n <= Len(R.sig) /\ R.sig[n].kind \in {"PK", "KO"} THEN b.loc[n] = <<ValOf(sig, S, n)>>
        ELSE \E i \in 1..Len(R.sig) : R.sig[i].kind = "VK" /\
               \E j \in 1..Len(b.loc[i]) - 1 : b.loc[i][j] = n /\ b.loc[i][j + 1] = ValOf(sig, S, n)

SigCode(s) == [i \in 1..Len(s) |-> [k |-> s[i].kind, d |-> s[i].dflt]]
Emit ==
  EmitOn => PrintT(ToJson([sig |-> SigCode(sig), S |-> S, sig2 |-> SigCode(sig2), drop |-> drop,
                           out |-> R.out, S2 |-> R.S,
                           bexp |-> IF R.out = "ok" THEN BuildExpect(R.sig, R.S) ELSE CallRaise,
                           acc |-> [n \in 1..Len(sig) |-> Accepts(R.sig, n)],
                           accx |-> Accepts(R.sig, 101)]))
=============================================================================
