------------------------------- MODULE FdlCall -------------------------------
(***************************************************************************)
(* C01: what fdl.build(Config(f, ...)) must pass to f.                     *)
(*                                                                         *)
(* Level A  BuildExpect(sig, S): the statement itself -- call f with the   *)
(*          reported arguments; unset parameters get the callable's own    *)
(*          defaults; a missing required parameter makes build raise.      *)
(* Level B  Transform (fiddle's SignatureInfo.transform_to_args_kwargs on  *)
(*          the canonical storage) followed by PyCall (CPython's binding   *)
(*          of f( *args, **kwargs )).  TLC checks PyCall(Transform(S)) =     *)
(*          BuildExpect(S) in every reachable store state.                 *)
(*                                                                         *)
(* Locals are a sequence over the parameters: <<v>> for an ordinary        *)
(* parameter, the tuple for *args, a flat <<name, value, ...>> (sorted by  *)
(* name id) for **kwargs.                                                  *)
(***************************************************************************)
EXTENDS FdlStore

CONSTANT GapFix   \* TRUE: algorithm as repaired; FALSE: as found (negative control)

Cell(sig, S, i) ==
  CASE sig[i].kind \in {"PO", "PK"} -> S.pre[i]
    [] sig[i].kind = "KO" -> S.ko[i]
    [] OTHER -> UNSET

RequiredMissing(sig, S) ==
  \E i \in 1..Len(sig) : sig[i].kind \in {"PO", "PK", "KO"}
                          /\ Cell(sig, S, i) = UNSET /\ ~sig[i].dflt

RECURSIVE KwFlat(_, _, _)
KwFlat(sig, ex, j) ==
  IF j > Len(ex) THEN <<>>
  ELSE LET rest == KwFlat(sig, ex, j + 1) IN
       IF ex[j] = UNSET THEN rest ELSE <<ExName(sig, j), ex[j]>> \o rest
\* sorted by name id: parameter-like names (1..n) come before 101, 102
LocalsOf(sig, S) ==
  [i \in 1..Len(sig) |->
     CASE sig[i].kind = "VP" -> S.va
       [] sig[i].kind = "VK" -> KwFlat(sig, S.ex, 1)
       [] OTHER -> IF Cell(sig, S, i) # UNSET THEN <<Cell(sig, S, i)>> ELSE <<Dflt(i)>>]

CallRaise == [out |-> "raise", loc |-> <<>>]
CallOk(loc) == [out |-> "ok", loc |-> loc]

BuildExpect(sig, S) ==
  IF RequiredMissing(sig, S) THEN CallRaise ELSE CallOk(LocalsOf(sig, S))

(* ------------------------------ level B -------------------------------- *)
\* Index (1-based) of the last parameter that can only be passed positionally.
LastPositional(sig, S) ==
  IF S.va # <<>> THEN NPos(sig)
  ELSE LET set == {i \in 1..NPos(sig) : sig[i].kind = "PO" /\ S.pre[i] # UNSET} IN
       IF set = {} THEN 0 ELSE CHOOSE i \in set : \A j \in set : j <= i

\* transform_to_args_kwargs(arguments) with both flags False.
\* Result: [err, args, kw] where kw is a sequence over parameters + extras of
\* values passed by keyword (UNSET = not passed).
RECURSIVE PosPart(_, _, _, _)
PosPart(sig, S, i, last) ==   \* positional values for parameters i..NPos
  IF i > NPos(sig) THEN [err |-> FALSE, vals |-> <<>>]
  ELSE
    LET rest == PosPart(sig, S, i + 1, last)
        positional == sig[i].kind = "PO" \/ S.va # <<>>
    IN
    IF ~positional THEN rest
    ELSE IF S.pre[i] # UNSET
         THEN [err |-> rest.err, vals |-> <<S.pre[i]>> \o rest.vals]
    ELSE IF GapFix /\ i <= last
         THEN IF sig[i].dflt THEN [err |-> rest.err, vals |-> <<Dflt(i)>> \o rest.vals]
              ELSE [err |-> TRUE, vals |-> <<>>]
    ELSE rest     \* as found: the unset cell is skipped, later values slide left

Transform(sig, S) ==
  LET pp == PosPart(sig, S, 1, LastPositional(sig, S)) IN
  [err  |-> pp.err,
   args |-> pp.vals \o S.va,
   kwpk |-> [i \in 1..Len(sig) |->
               IF sig[i].kind = "PK" /\ S.va = <<>> THEN S.pre[i]
               ELSE IF sig[i].kind = "KO" THEN S.ko[i] ELSE UNSET],
   kwex |-> S.ex]

\* CPython: f( *args, **kwargs )
PyCall(sig, t) ==
  LET n == NPos(sig)
      na == Len(t.args)
      tooMany == na > n /\ ~HasVP(sig)
      multiple == \E i \in 1..n : i <= na /\ t.kwpk[i] # UNSET
      badKw == ~HasVK(sig) /\ \E j \in 1..Len(t.kwex) : t.kwex[j] # UNSET
      bound(i) == IF i <= n /\ i <= na THEN t.args[i] ELSE t.kwpk[i]
      missing == \E i \in 1..Len(sig) : sig[i].kind \in {"PO", "PK", "KO"}
                                         /\ bound(i) = UNSET /\ ~sig[i].dflt
  IN
  IF t.err \/ tooMany \/ multiple \/ badKw \/ missing THEN CallRaise
  ELSE CallOk([i \in 1..Len(sig) |->
                 CASE sig[i].kind = "VP" -> SubSeq(t.args, n + 1, na)
                   [] sig[i].kind = "VK" -> KwFlat(sig, t.kwex, 1)
                   [] OTHER -> IF bound(i) # UNSET THEN <<bound(i)>> ELSE <<Dflt(i)>>])

ImplMatchesSpec(sig, S) == PyCall(sig, Transform(sig, S)) = BuildExpect(sig, S)
=============================================================================
