---------------------------- MODULE FdlAutoConfig ----------------------------
(***************************************************************************)
(* C11 (level A): auto_config as a lock-step two-semantics program machine.*)
(*                                                                         *)
(* A program is a postfix instruction sequence (the body of one Python     *)
(* function, decompiled by the harness).  Exec runs one instruction in     *)
(* both semantics at once:                                                 *)
(*   D  the direct (plain Python) semantics: a call allocates an instance; *)
(*   B  the as_buildable semantics: a call allocates a Config, a           *)
(*      functools.partial a Partial, arg_factory.partial a Partial whose   *)
(*      arguments are ArgFactories, exempt() calls execute, with_tags      *)
(*      gives a TaggedValue (folded into the argument's tags when passed   *)
(*      to a Buildable), an inlined auto_config callee contributes its own *)
(*      Buildables, a non-inlined one a Config of the callee.              *)
(* A stack entry is [b, d, bb, bd, iv]: its value in either semantics, the *)
(* heap sizes when its evaluation began (objects above them were allocated *)
(* by the expression and are re-created by every iteration of a            *)
(* comprehension), the configurable callables invoked in B while           *)
(* evaluating it, and np: how many parameters a partial bound positionally.*)
(*                                                                         *)
(* Instruction [op, a, b, kw, sty]:                                        *)
(*   lit n | par p | fn f | ld v | st v | mk(sty = list/tuple/dict, a = n, *)
(*   b = 1: through the builtin list()/tuple()/dict()) |                    *)
(*   call f (b positional, kw keyword slots, sty plain/splat) | part f .. | *)
(*   repart kw (functools.partial of a partial) | afp f kw | ex f .. |      *)
(*   tag mask | ac g (a = 11 inlined, 12 not; b = 1: keyword argument) |    *)
(*   ife c | comp n | ret                                                   *)
(***************************************************************************)
EXTENDS FdlBuild

FnLeaf(f) == 2000 + f
IsFnLeaf(v) == v > 2000 /\ v < 2100
ParamLeaf(p) == 10 + p
AcInline == 11
AcNoInline == 12
NoVar == [b |-> 0, d |-> 0, bb |-> 0, bd |-> 0, iv |-> <<>>, np |-> 0]

I(op, a, b, kw, sty) == [op |-> op, a |-> a, b |-> b, kw |-> kw, sty |-> sty]
Entry(b, d, bb, bd, iv) == [b |-> b, d |-> d, bb |-> bb, bd |-> bd, iv |-> iv, np |-> 0]

InitState(nvars) ==
  [stk |-> <<>>, hb |-> <<>>, hd |-> <<>>, vars |-> [v \in 1..nvars |-> NoVar], inv |-> <<>>]

Slots(ins) == [j \in 1..ins.b |-> j] \o ins.kw
Arity(ins) ==
  CASE ins.op \in {"lit", "par", "fn", "ld"} -> 0
    [] ins.op \in {"st", "tag", "ac", "comp", "ret"} -> 1
    [] ins.op = "mk" -> ins.a
    [] ins.op \in {"call", "part", "ex"} -> ins.b + Len(ins.kw)
    [] ins.op = "afp" -> Len(ins.kw)
    [] ins.op = "repart" -> 1 + Len(ins.kw)
    [] ins.op = "ife" -> 2

Top(stk, m) == SubSeq(stk, Len(stk) - m + 1, Len(stk))
Rest(stk, m) == SubSeq(stk, 1, Len(stk) - m)
RECURSIVE ConcatIv(_)
ConcatIv(es) == IF es = <<>> THEN <<>> ELSE Head(es).iv \o ConcatIv(Tail(es))

IsTaggedRef(h, v) == IsRef(v) /\ h[-v].k = "tagged"
\* what a Buildable stores for an argument: a TaggedValue is folded into (value, tags)
BArg(h, v) == IF IsTaggedRef(h, v) THEN [val |-> h[-v].items[1].val, tg |-> h[-v].items[1].tg]
              ELSE [val |-> v, tg |-> 0]
IsPartialRef(h, v) == IsRef(v) /\ h[-v].k = "partial"
IsFactoryOperand(h, v) == IsFnLeaf(v) \/ IsPartialRef(h, v)

\* bitwise or of two tag masks over three tags
Bit(m, i) == (m \div i) % 2
OrMask(m, n) == LET b(i) == IF Bit(m, i) + Bit(n, i) > 0 THEN i ELSE 0 IN b(1) + b(2) + b(4)

Enabled(st, ins) ==
  LET m == Arity(ins)  args == Top(st.stk, m) IN
  /\ Len(st.stk) >= m
  /\ CASE ins.op = "ld" -> st.vars[ins.a] # NoVar
       [] ins.op \in {"st", "ret"} -> Len(st.stk) = 1
       [] ins.op = "ex" -> \A j \in 1..m : args[j].b > 0 /\ args[j].b = args[j].d
       [] ins.op = "afp" -> m > 0 /\ \A j \in 1..m : IsFactoryOperand(st.hb, args[j].b)
       [] ins.op = "repart" -> /\ IsPartialRef(st.hb, args[1].b)
                               /\ m > 1
                               /\ \A j \in 2..m : ~IsTaggedRef(st.hb, args[j].b)
                               \* (a positionally bound parameter cannot be given again by keyword)
                               /\ \A j \in 1..m - 1 : ins.kw[j] > args[1].np
       [] OTHER -> TRUE

\* items of a partial merged with new keyword items (a slot given again is overridden)
MergeItems(old, new) ==
  LET keys == {old[j].key : j \in 1..Len(old)} \cup {new[j].key : j \in 1..Len(new)}
      ks == SetToSeq(keys)
      pick(k) == IF \E j \in 1..Len(new) : new[j].key = k
                 THEN LET j == CHOOSE x \in 1..Len(new) : new[x].key = k
                          t == IF \E y \in 1..Len(old) : old[y].key = k
                               THEN old[CHOOSE y \in 1..Len(old) : old[y].key = k].tg ELSE 0
                      IN ItemT(k, new[j].val, OrMask(t, new[j].tg))
                 ELSE old[CHOOSE x \in 1..Len(old) : old[x].key = k]
  IN [i \in 1..Len(ks) |-> pick(ks[i])]

\* a fresh copy of everything the expression allocated (objects above base)
CopyFresh(h, v, base) ==
  IF ~IsRef(v) \/ -v <= base THEN [h |-> h, v |-> v]
  ELSE LET ids == SetToSeq({o \in Reach(h, -v) : o > base})
           n == Len(h)
           newid(o) == n + Pos(ids, o)
           mapv(w) == IF IsRef(w) /\ -w > base THEN -newid(-w) ELSE w
           copies == [i \in 1..Len(ids) |->
                        LET o == h[ids[i]] IN
                        Obj(o.k, o.fn, [j \in 1..Len(o.items) |->
                                          ItemT(o.items[j].key, mapv(o.items[j].val), o.items[j].tg)])]
       IN [h |-> h \o copies, v |-> -newid(-v)]

RECURSIVE Repeat(_, _, _, _, _)
\* n evaluations of the element expression: <<heap, sequence of values>>
Repeat(h, v, base, n, acc) ==
  IF n = 0 THEN [h |-> h, vs |-> acc]
  ELSE IF acc = <<>> THEN Repeat(h, v, base, n - 1, <<v>>)
  ELSE LET c == CopyFresh(h, v, base) IN Repeat(c.h, v, base, n - 1, Append(acc, c.v))

RECURSIVE RepIv(_, _)
RepIv(iv, n) == IF n = 0 THEN <<>> ELSE iv \o RepIv(iv, n - 1)

SeqItems(vs) == [j \in 1..Len(vs) |-> ItemT(j - 1, vs[j], 0)]
MkItems(sty, vs) == IF sty = "dict" THEN [j \in 1..Len(vs) |-> ItemT(j, vs[j], 0)] ELSE SeqItems(vs)

\* body of the auto_config callees:   x = g4(s1=s1); return ClsA(s1=x, s2=x)
CalleeBody(h, kind, arg, tg) ==
  LET n == Len(h) IN
  h \o <<Obj(kind, 4, <<ItemT(1, arg, tg)>>), Obj(kind, 2, <<ItemT(1, -(n + 1), 0), ItemT(2, -(n + 1), 0)>>)>>

Exec(st, ins) ==
  LET m == Arity(ins)
      args == Top(st.stk, m)
      rest == Rest(st.stk, m)
      nb == Len(st.hb)
      nd == Len(st.hd)
      bb == IF m = 0 THEN nb ELSE args[1].bb
      bd == IF m = 0 THEN nd ELSE args[1].bd
      iv == ConcatIv(args)
      push(e) == [st EXCEPT !.stk = Append(rest, e)]
      sl == Slots(ins)
      bitems == [j \in 1..m |-> ItemT(sl[j], BArg(st.hb, args[j].b).val, BArg(st.hb, args[j].b).tg)]
      ditems == [j \in 1..m |-> ItemT(sl[j], args[j].d, 0)]
      alloc(kb, kd, fb, ib, id, iv2) ==
        [st EXCEPT !.hb = Append(st.hb, Obj(kb, fb, ib)), !.hd = Append(st.hd, Obj(kd, fb, id)),
                   !.stk = Append(rest, Entry(-(nb + 1), -(nd + 1), bb, bd, iv2))]
  IN
  CASE ins.op = "lit" -> push(Entry(ins.a, ins.a, nb, nd, <<>>))
    [] ins.op = "par" -> push(Entry(ParamLeaf(ins.a), ParamLeaf(ins.a), nb, nd, <<>>))
    [] ins.op = "fn" -> push(Entry(FnLeaf(ins.a), FnLeaf(ins.a), nb, nd, <<>>))
    [] ins.op = "ld" -> push([st.vars[ins.a] EXCEPT !.bb = nb, !.bd = nd, !.iv = <<>>])
    [] ins.op = "st" -> [st EXCEPT !.stk = rest, !.vars[ins.a] = args[1], !.inv = st.inv \o args[1].iv]
    [] ins.op = "ret" -> [st EXCEPT !.inv = st.inv \o args[1].iv]
    [] ins.op = "mk" ->
         alloc(ins.sty, ins.sty, 0, MkItems(ins.sty, [j \in 1..m |-> args[j].b]),
               MkItems(ins.sty, [j \in 1..m |-> args[j].d]), iv)
    [] ins.op = "call" -> alloc("config", "inst", ins.a, bitems, ditems, iv)
    [] ins.op = "part" ->
         LET s2 == alloc("partial", "partial", ins.a, bitems, ditems, iv) IN
         [s2 EXCEPT !.stk[Len(s2.stk)].np = ins.b]
    [] ins.op = "ex" -> alloc("inst", "inst", ins.a, ditems, ditems, Append(iv, ins.a))
    [] ins.op = "repart" ->
         LET pb == st.hb[-args[1].b]  pd == st.hd[-args[1].d]
             newb == [j \in 1..m - 1 |-> ItemT(ins.kw[j], args[j + 1].b, 0)]
             newd == [j \in 1..m - 1 |-> ItemT(ins.kw[j], args[j + 1].d, 0)]
         IN [st EXCEPT !.hb = Append(st.hb, Obj("partial", pb.fn, MergeItems(pb.items, newb))),
                       !.hd = Append(st.hd, Obj("partial", pd.fn, MergeItems(pd.items, newd))),
                       !.stk = Append(rest, [Entry(-(nb + 1), -(nd + 1), bb, bd, iv) EXCEPT !.np = args[1].np])]
    [] ins.op = "afp" ->
         LET fac(h, v) == IF IsFnLeaf(v) THEN Obj("argfactory", v - 2000, <<>>)
                          ELSE Obj("argfactory", h[-v].fn, h[-v].items)
             fb == [j \in 1..m |-> fac(st.hb, args[j].b)]
             fd == [j \in 1..m |-> fac(st.hd, args[j].d)]
         IN [st EXCEPT
               !.hb = st.hb \o fb \o <<Obj("partial", ins.a, [j \in 1..m |-> ItemT(ins.kw[j], -(nb + j), 0)])>>,
               !.hd = st.hd \o fd \o <<Obj("partial", ins.a, [j \in 1..m |-> ItemT(ins.kw[j], -(nd + j), 0)])>>,
               !.stk = Append(rest, Entry(-(nb + m + 1), -(nd + m + 1), bb, bd, iv))]
    [] ins.op = "tag" ->
         LET a == BArg(st.hb, args[1].b) IN
         [st EXCEPT !.hb = Append(st.hb, Obj("tagged", 0, <<ItemT(1, a.val, OrMask(a.tg, ins.a))>>)),
                    !.stk = Append(rest, Entry(-(nb + 1), args[1].d, bb, bd, iv))]
    [] ins.op = "ac" ->
         LET a == BArg(st.hb, args[1].b)
             hb2 == IF ins.a = AcInline THEN CalleeBody(st.hb, "config", a.val, a.tg)
                    ELSE Append(st.hb, Obj("config", AcNoInline, <<ItemT(1, a.val, a.tg)>>))
             hd2 == CalleeBody(st.hd, "inst", args[1].d, 0)
         IN [st EXCEPT !.hb = hb2, !.hd = hd2,
                       !.stk = Append(rest, Entry(-Len(hb2), -Len(hd2), bb, bd, iv))]
    [] ins.op = "ife" ->
         LET c == IF ins.a = 1 THEN args[1] ELSE args[2] IN
         push([c EXCEPT !.bb = bb, !.bd = bd])
    [] ins.op = "comp" ->
         LET rb == Repeat(st.hb, args[1].b, args[1].bb, ins.a, <<>>)
             rd == Repeat(st.hd, args[1].d, args[1].bd, ins.a, <<>>)
         IN [st EXCEPT !.hb = Append(rb.h, Obj("list", 0, SeqItems(rb.vs))),
                       !.hd = Append(rd.h, Obj("list", 0, SeqItems(rd.vs))),
                       !.stk = Append(rest, Entry(-(Len(rb.h) + 1), -(Len(rd.h) + 1), bb, bd,
                                                 RepIv(args[1].iv, ins.a)))]

RECURSIVE RunFrom(_, _, _)
RunFrom(st, prog, i) ==   \* state after the program, or the index of the first instruction not enabled
  IF i > Len(prog) THEN [ok |-> TRUE, st |-> st, at |-> 0]
  ELSE IF ~Enabled(st, prog[i]) THEN [ok |-> FALSE, st |-> st, at |-> i]
  ELSE RunFrom(Exec(st, prog[i]), prog, i + 1)
Run(prog, nvars) == RunFrom(InitState(nvars), prog, 1)

UsesControlFlow(prog) == \E i \in 1..Len(prog) : prog[i].op \in {"ife", "comp"}

(* ------------------------- what fdl.build must give --------------------- *)
\* every object once, in heap order (a heap only refers to older objects); a Config of
\* the non-inlined callee builds to what the callee returns
RECURSIVE Bld(_, _, _, _)
Bld(h, i, out, map) ==
  IF i > Len(h) THEN [out |-> out, map |-> map]
  ELSE LET o == h[i]
           mv(w) == IF IsRef(w) THEN map[-w] ELSE w
           its == SelectSeq(o.items, LAMBDA it : it.val # 0)
           items == [j \in 1..Len(its) |-> ItemT(its[j].key, mv(its[j].val), 0)]
       IN IF o.k = "tagged"
          THEN Bld(h, i + 1, out, Append(map, IF its = <<>> THEN 0 ELSE items[1].val))
          ELSE IF o.k = "config" /\ o.fn = AcNoInline
          THEN LET out2 == CalleeBody(out, "inst", items[1].val, 0) IN
               Bld(h, i + 1, out2, Append(map, -Len(out2)))
          ELSE Bld(h, i + 1, Append(out, Obj(BuiltKind(o.k), o.fn, items)), Append(map, -(Len(out) + 1)))

ContainsBuildable(h, v) ==
  IsRef(v) /\ \E o \in Reach(h, -v) : IsBuildableKind(h[o].k) \/ h[o].k = "tagged"

CanonV(h, v) == IF IsRef(v) THEN Canon(h, -v) ELSE <<>>
RootV(v) == IF IsRef(v) THEN -1 ELSE v

\* the model theorem for one finished program
BuildEqualsCall(st) ==
  LET e == st.stk[1]  r == Bld(st.hb, 1, <<>>, <<>>)
      bv == IF IsRef(e.b) THEN r.map[-e.b] ELSE e.b
  IN ContainsBuildable(st.hb, e.b) =>
       /\ CanonV(r.out, bv) = CanonV(st.hd, e.d)
       /\ RootV(bv) = RootV(e.d)
=============================================================================
