------------------------------ MODULE FdlSelect ------------------------------
(***************************************************************************)
(* C15 (level A): select(cfg, F, match_subclasses, buildable_type).        *)
(*                                                                         *)
(* Callable pool: 1 = function f1, 2 = class A, 3 = class B (subclass of   *)
(* A), 4 = function g4.  A node matches iff it is a reachable Buildable of *)
(* the requested Buildable type whose callable is F, or -- for classes,    *)
(* with match_subclasses -- a subclass of F.                               *)
(*                                                                         *)
(*   op = [name, fn, sub, bt, slot, val]                                   *)
(*   iter            -> the matching nodes, each exactly once              *)
(*   get(slot)       -> multiset of value-or-default of the matching nodes *)
(*   set(slot := v)  -> assigned on exactly the matching nodes             *)
(*   replace(v) / replace_shared(v) -> v at every reference to a matching  *)
(*        node (with deepcopy, one copy per matching node); every other    *)
(*        object is untouched; a matching root is rejected                 *)
(***************************************************************************)
EXTENDS FdlEdit

IsSubFn(f, g) == f = g \/ (f = 3 /\ g = 2)
KindOK(k, bt) == CASE bt = "buildable" -> IsBuildableKind(k)
                   [] bt = "config" -> k = "config"
                   [] bt = "partial" -> k = "partial"
SelMatches(h, o, op) ==
  /\ IsBuildableKind(h[o].k)
  /\ KindOK(h[o].k, op.bt)
  /\ (h[o].fn = op.fn \/ (op.sub /\ IsSubFn(h[o].fn, op.fn)))
Selected(h, root, op) == {o \in Reach(h, root) : SelMatches(h, o, op)}

SRes(o, h, r) == [out |-> o, h |-> h, ret |-> r]
FreshConfig == Obj("config", 4, <<>>)
DfltOf(slot) == 1000 + slot

ValueAt(h, o, slot) ==
  LET js == {j \in 1..Len(h[o].items) : h[o].items[j].key = slot /\ h[o].items[j].val # 0} IN
  IF js = {} THEN DfltOf(slot) ELSE h[o].items[CHOOSE j \in js : TRUE].val

RECURSIVE SetAll(_, _, _, _)
SetAll(h, todo, slot, v) ==
  IF todo = {} THEN h
  ELSE LET o == CHOOSE x \in todo : TRUE IN SetAll(SetArg(h, o, slot, v), todo \ {o}, slot, v)

\* positions (object, item) that refer to a selected node, in objects that are not selected
RefPositions(h, sel) ==
  {<<o, j>> \in (1..Len(h)) \X (1..8) :
     j <= Len(h[o].items) /\ IsRef(h[o].items[j].val) /\ -h[o].items[j].val \in sel}
RankOf(S, x) == Cardinality({y \in S : y[1] < x[1] \/ (y[1] = x[1] /\ y[2] <= x[2])})

ReplaceWith(h, sel, valOf(_, _)) ==
  [o \in 1..Len(h) |->
     [h[o] EXCEPT !.items =
        [j \in 1..Len(h[o].items) |->
           IF IsRef(h[o].items[j].val) /\ -h[o].items[j].val \in sel
           THEN ItemT(h[o].items[j].key, valOf(o, j), h[o].items[j].tg)
           ELSE h[o].items[j]]]]

ApplySelOp(h, root, op) ==
  LET sel == Selected(h, root, op) IN
  CASE op.name = "iter" -> SRes("ok", h, SetToSeq(sel))
    [] op.name = "get" ->
         LET vals == {ValueAt(h, o, op.slot) : o \in sel} IN
         SRes("ok", h, MsSeq([v \in vals |-> Cardinality({o \in sel : ValueAt(h, o, op.slot) = v})]))
    [] op.name = "set" -> SRes("ok", SetAll(h, sel, op.slot, op.val), <<>>)
    [] op.name \in {"replace", "replace_shared"} ->
         IF root \in sel THEN SRes("raise", h, <<>>)
         ELSE IF op.val > 0 THEN SRes("ok", ReplaceWith(h, sel, LAMBDA o, j : op.val), <<>>)
         ELSE IF op.name = "replace_shared"
              THEN SRes("ok", Append(ReplaceWith(h, sel, LAMBDA o, j : -(Len(h) + 1)), FreshConfig), <<>>)
         ELSE \* deepcopy = True: one copy of v per matching node, shared by all references
              \* to that node (the sharing structure around the replaced node is kept)
              LET rank(s) == Cardinality({x \in sel : x <= s}) IN
              SRes("ok", ReplaceWith(h, sel, LAMBDA o, j : -(Len(h) + rank(-h[o].items[j].val)))
                           \o [i \in 1..Cardinality(sel) |-> FreshConfig], <<>>)
=============================================================================
