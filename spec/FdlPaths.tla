------------------------------- MODULE FdlPaths -------------------------------
(***************************************************************************)
(* C08 (level A): what traversals of a structure must report.              *)
(*                                                                         *)
(*   AllPaths(h, root)  every <<path, value>> of the structure             *)
(*   PathsTo(h, root,v) exactly the paths that reach v                     *)
(*   Follow(h, root, p) the value at the end of path p (partial)           *)
(*                                                                         *)
(* Observations (each a predicate over what the implementation reported):  *)
(*   BasicOK(h, s)   un-memoized traversal: s reports every element of     *)
(*                   AllPaths exactly once                                 *)
(*   MemoOK(h, s)    memoized traversal: every reported pair is sound,     *)
(*                   every object (reference value) is reported exactly    *)
(*                   once, no path twice                                   *)
(*   ByIdOK(h, m)    the all-paths query: for every memoizable object the  *)
(*                   reported set is exactly PathsTo, no duplicates        *)
(*   RebuildOK(h, g) identity traversal: result isomorphic to the input    *)
(***************************************************************************)
EXTENDS FdlHeap

RECURSIVE Follow(_, _, _)
Follow(h, v, p) ==
  IF p = <<>> THEN v
  ELSE IF ~IsRef(v) THEN 0         \* cannot descend into a leaf
  ELSE LET o == h[-v]  st == Head(p)
           js == {j \in 1..Len(o.items) :
                    (IF o.k \in {"list", "tuple", "ntuple"} THEN j - 1 ELSE o.items[j].key) = st[2]}
       IN IF st[1] # o.k \/ js = {} THEN 0
          ELSE Follow(h, o.items[CHOOSE j \in js : TRUE].val, Tail(p))

Sound(h, root, pair) == Follow(h, -root, pair[1]) = pair[2] /\ pair[2] # 0

NoDup(s) == \A i, j \in 1..Len(s) : i # j => s[i] # s[j]

BasicOK(h, root, s) ==
  /\ NoDup(s)
  /\ Range(s) = AllPaths(h, root)

MemoOK(h, root, s) ==
  /\ \A i \in 1..Len(s) : Sound(h, root, s[i])
  /\ \A i, j \in 1..Len(s) : i # j => s[i][1] # s[j][1]           \* no path twice
  /\ \A o \in Reach(h, root) :
       Cardinality({i \in 1..Len(s) : s[i][2] = -o}) = 1            \* each object once

\* m: sequence indexed by object id of sequences of paths
\* fiddle's is_memoizable: everything but immutable scalars and the empty tuple
Memoizable(h, o) == ~(h[o].k = "tuple" /\ h[o].items = <<>>)
ByIdOK(h, root, m) ==
  \A o \in Reach(h, root) :
    Memoizable(h, o) =>
      /\ NoDup(m[o])
      /\ Range(m[o]) = PathsTo(h, root, -o)

\* The memoized first-visit order is one admissible memoized traversal.
FirstVisitPairs(h, root) ==
  LET ord == Dfs(h, <<root>>, <<>>) IN
  [i \in 1..Len(ord) |->
     <<CHOOSE p \in PathsTo(h, root, -ord[i]) : TRUE, -ord[i]>>]
=============================================================================
