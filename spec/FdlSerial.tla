------------------------------- MODULE FdlSerial -------------------------------
(***************************************************************************)
(* C09 (level A): the policy clause of JSON deserialization over ARBITRARY *)
(* documents.  A document is a tree of nodes                               *)
(*    [t |-> "leaf"] | [t |-> "pyref", sym] | [t |-> "list", items] |      *)
(*    [t |-> "ref", name]  with  objects : name -> node                    *)
(* (lists stand for every traversable: their type is itself an approved    *)
(* builtin pyref).  Symbols: each has a status                             *)
(*    "approved"   the policy allows it and it exists                      *)
(*    "forbidden"  the policy's allows_import says no                      *)
(*    "tainted"    importable, but allows_value rejects the value          *)
(*    "missing"    approved by name but does not exist                     *)
(* The loader walks the document depth-first, left to right, resolving a   *)
(* shared object once.  Statement: loading succeeds iff every pyref it     *)
(* reaches is approved; it never imports a symbol that allows_import has   *)
(* not approved, and never hands a rejected value to the caller.           *)
(***************************************************************************)
EXTENDS Integers, Sequences, FiniteSets, TLC

Leaf == [t |-> "leaf", sym |-> 0, name |-> 0, items |-> <<>>]
Pyref(s) == [t |-> "pyref", sym |-> s, name |-> 0, items |-> <<>>]
Ref(n) == [t |-> "ref", sym |-> 0, name |-> n, items |-> <<>>]
\* nested lists are given by object names to keep records uniform
ListOf(ns) == [t |-> "list", sym |-> 0, name |-> 0, items |-> ns]

\* Walk(doc): the sequence of pyref symbols in the order the loader meets them
RECURSIVE WalkNode(_, _, _)
WalkNode(objects, node, seen) ==       \* returns [syms, seen]
  CASE node.t = "leaf" -> [syms |-> <<>>, seen |-> seen]
    [] node.t = "pyref" -> [syms |-> <<node.sym>>, seen |-> seen]
    [] node.t = "ref" ->
         IF node.name \in seen THEN [syms |-> <<>>, seen |-> seen]
         ELSE LET r == WalkNode(objects, objects[node.name], seen \cup {node.name}) IN r
    [] node.t = "list" ->
         LET RECURSIVE Each(_, _)
             Each(i, acc) ==
               IF i > Len(node.items) THEN acc
               ELSE LET r == WalkNode(objects, Ref(node.items[i]), acc.seen) IN
                    Each(i + 1, [syms |-> acc.syms \o r.syms, seen |-> r.seen])
         IN Each(1, [syms |-> <<>>, seen |-> seen])

Walk(doc) == WalkNode(doc.objects, doc.root, {}).syms

\* status : symbol -> status
FirstBad(w, status) ==
  LET bad == {i \in 1..Len(w) : status[w[i]] # "approved"} IN
  IF bad = {} THEN 0 ELSE CHOOSE i \in bad : \A j \in bad : i <= j

Outcome(doc, status) == IF FirstBad(Walk(doc), status) = 0 THEN "ok" ELSE "error"
\* symbols the loader may import: everything met up to and including the first bad one,
\* minus symbols that allows_import refuses
MayImport(doc, status) ==
  LET w == Walk(doc)  fb == FirstBad(w, status)
      upto == IF fb = 0 THEN Len(w) ELSE fb IN
  {w[i] : i \in 1..upto} \ {s \in DOMAIN status : status[s] = "forbidden"}
=============================================================================
