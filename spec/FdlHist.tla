------------------------------- MODULE FdlHist -------------------------------
(***************************************************************************)
(* C16 (level A): argument history is a faithful, ordered log of edits.    *)
(*                                                                         *)
(* The store is FdlStore's; history is observed per storage key:           *)
(*   key code k < 200 : positional index k (positional-only / *args cell)  *)
(*   key code 200 + n : the name n (parameter n, or extra name 101, 102)   *)
(*   key code 999     : the callable (__fn_or_cls__)                       *)
(* An entry is [key, kind, val] with kind "v" (new value), "d" (deleted),  *)
(* "t" (tag set updated; val = tag bitmask).                               *)
(*                                                                         *)
(* The statement as an acceptance predicate over one operation:            *)
(*   DeltaOK : with tracking on, every key whose stored value changed got  *)
(*     exactly one value entry, reflecting the new state; a key that the   *)
(*     operation addressed but did not change got at most one (reflecting  *)
(*     the current state); no other key got any; with tracking suspended   *)
(*     nothing is appended.                                                *)
(*   TagDeltaOK : a tag operation appends only "t" entries for that key,   *)
(*     at least one, the last reflecting the current tag set.              *)
(***************************************************************************)
EXTENDS FdlStore

FnKey == 999

\* storage key of positional cell n (0-based)
KeyOfCell(sig, n) ==
  IF n < NPos(sig) /\ sig[n + 1].kind = "PK" THEN 200 + (n + 1) ELSE n

PosCodes(sig, S) == 0..(NPos(sig) + Len(S.va) + 4)
NameCodes(sig) == {200 + i : i \in 1..Len(sig)} \cup {200 + n : n \in Extras}
Codes(sig, S) == PosCodes(sig, S) \cup NameCodes(sig)

Stored(sig, S, k) ==
  IF k < 200
  THEN IF k < NPos(sig)
       THEN (IF sig[k + 1].kind = "PO" THEN S.pre[k + 1] ELSE UNSET)
       ELSE LET j == k - NPos(sig) + 1 IN IF j \in 1..Len(S.va) THEN S.va[j] ELSE UNSET
  ELSE LET n == k - 200 IN
       IF n > 100 THEN S.ex[ExIdx(sig, n)]
       ELSE IF n > Len(sig) THEN UNSET
       ELSE CASE sig[n].kind = "PK" -> S.pre[n]
              [] sig[n].kind = "KO" -> S.ko[n]
              [] OTHER -> S.ex[n]

Changed(sig, S, S2) ==
  {k \in Codes(sig, S) \cup Codes(sig, S2) : Stored(sig, S, k) # Stored(sig, S2, k)}

\* keys an operation may legitimately touch even when their value stays the same
Addressed(sig, S, op) ==
  LET len == Len(L(S))
      cells(lo) == {KeyOfCell(sig, n) : n \in lo..(len + 3)}
  IN
  CASE op.name = "setitem" ->
         LET n == Norm(Rv(sig, op.a), len) IN
         IF n \in 0..len - 1 THEN {KeyOfCell(sig, n)} ELSE {}
    [] op.name = "delitem" ->
         LET n == Norm(Rv(sig, op.a), len) IN
         IF n \notin 0..len - 1 THEN {}
         ELSE IF n < NPos(sig) THEN {KeyOfCell(sig, n)} ELSE cells(n)
    [] op.name \in {"setslice", "delslice"} -> cells(0)
    [] op.name \in {"setattr", "delattr"} -> {200 + op.a}
    [] OTHER -> {}

Reflects(sig, S2, e) ==
  IF Stored(sig, S2, e.key) = UNSET THEN e.kind = "d"
  ELSE e.kind = "v" /\ e.val = Stored(sig, S2, e.key)

CountKey(delta, k) == Cardinality({i \in 1..Len(delta) : delta[i].key = k})

DeltaOK(sig, S, S2, op, delta, tracking) ==
  IF ~tracking THEN delta = <<>>
  ELSE
    /\ \A k \in Changed(sig, S, S2) : CountKey(delta, k) = 1
    /\ \A k \in Addressed(sig, S, op) \ Changed(sig, S, S2) : CountKey(delta, k) <= 1
    /\ \A i \in 1..Len(delta) :
         /\ delta[i].key \in Changed(sig, S, S2) \cup Addressed(sig, S, op)
         /\ delta[i].kind \in {"v", "d"}
         /\ Reflects(sig, S2, delta[i])

TagDeltaOK(key, newmask, delta, tracking) ==
  IF ~tracking THEN delta = <<>>
  ELSE /\ Len(delta) >= 1
       /\ \A i \in 1..Len(delta) : delta[i].key = key /\ delta[i].kind = "t"
       /\ delta[Len(delta)].val = newmask

\* the reference implementation: one entry per changed key, nothing else
RefDelta(sig, S, S2) ==
  LET ks == SetToSeq(Changed(sig, S, S2)) IN
  [i \in 1..Len(ks) |->
     [key |-> ks[i],
      kind |-> IF Stored(sig, S2, ks[i]) = UNSET THEN "d" ELSE "v",
      val |-> Stored(sig, S2, ks[i])]]
=============================================================================
