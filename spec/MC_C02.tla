------------------------------- MODULE MC_C02 -------------------------------
(***************************************************************************)
(* C02 (level A, FdlBuild): one invocation per Buildable instance, after   *)
(* its dependencies; the built graph mirrors the configuration graph.      *)
(*                                                                         *)
(* Phase "gen"  : the heap is created bottom-up (NewObj).                  *)
(* Phase "build": fdl.build(root).  Call(o) is enabled iff o is a reachable*)
(*                Buildable that has not been called and every Buildable   *)
(*                it depends on has been called.  Any enabled order is     *)
(*                allowed -- the statement fixes nothing more.             *)
(* Phase "done" : the result is the heap with every config replaced by an  *)
(*                instance node: same object -> same result, distinct      *)
(*                objects -> distinct results.                             *)
(***************************************************************************)
EXTENDS FdlGen, FdlBuild, Json

CONSTANTS WithBuild,   \* explore the build phase (interleavings of Call)
          EmitOn

VARIABLES phase, called

Init == heap = <<>> /\ phase = "gen" /\ called = <<>>

GenStep ==
  /\ phase = "gen"
  /\ NewObj
  /\ UNCHANGED <<phase, called>>

StartBuild ==
  /\ WithBuild
  /\ phase = "gen"
  /\ Complete(heap)
  /\ ~BuildFails(heap, Root)
  /\ phase' = "build"
  /\ UNCHANGED <<heap, called>>

CallEnabled(h, root, done, o) ==
  /\ o \in ReachableBuildables(h, root)
  /\ o \notin done
  /\ BuildableDeps(h, o) \subseteq done

Call(o) ==
  /\ phase = "build"
  /\ CallEnabled(heap, Root, Range(called), o)
  /\ called' = Append(called, o)
  /\ UNCHANGED <<heap, phase>>

Finish ==
  /\ phase = "build"
  /\ ReachableBuildables(heap, Root) \subseteq Range(called)
  /\ phase' = "done"
  /\ UNCHANGED <<heap, called>>

Next == GenStep \/ StartBuild \/ (\E o \in 1..Len(heap) : Call(o)) \/ Finish

Prune == GenPrune

(* --------------------------- checked formulas -------------------------- *)
ExactlyOnce ==
  phase = "done" =>
    /\ Range(called) = ReachableBuildables(heap, Root)
    /\ Len(called) = Cardinality(Range(called))
DepsFirst ==
  \A i \in 1..Len(called) :
    BuildableDeps(heap, called[i]) \subseteq {called[j] : j \in 1..i - 1}
\* the result graph is isomorphic to the configuration graph (same sharing,
\* distinct nodes stay distinct), and only kinds differ
\* (stand-alone TaggedValues vanish: compare on heaps without them)
MirrorsConfig ==
  (phase = "done" /\ \A i \in 1..Len(heap) : heap[i].k # "tagged") =>
    LET b == BuiltCanon(heap, Root)  c == Canon(heap, Root) IN
    /\ Len(b) = Len(c)
    /\ \A i \in 1..Len(c) :
         /\ b[i].k = BuiltKind(c[i].k)
         /\ Len(b[i].items) = Len(c[i].items)
         /\ \A j \in 1..Len(c[i].items) : b[i].items[j].val = c[i].items[j].val
\* the build can always be completed (no deadlock among dependencies: DAG)
Progress ==
  phase = "build" =>
    \/ ReachableBuildables(heap, Root) \subseteq Range(called)
    \/ \E o \in 1..Len(heap) : CallEnabled(heap, Root, Range(called), o)

EmitHeap ==
  (EmitOn /\ phase = "gen" /\ Complete(heap) /\ Prune) =>
    PrintT(ToJson([heap |-> Canon(heap, Root),
                   fails |-> BuildFails(heap, Root),
                   builtroot |-> BuiltRoot(Canon(heap, Root), 1),
                   built |-> BuiltCanon(heap, Root),
                   bindex |-> BuiltIndex(heap, Root),
                   buildables |-> [o \in 1..Len(Canon(heap, Root)) |->
                                     IsBuildableKind(Canon(heap, Root)[o].k)],
                   deps |-> [o \in 1..Len(Canon(heap, Root)) |->
                               LET c == Canon(heap, Root) IN
                               IF IsBuildableKind(c[o].k)
                               THEN SetToSeq(BuildableDeps(c, o)) ELSE <<>>]]))
=============================================================================
