------------------------------- MODULE MC_C02 -------------------------------
(***************************************************************************)
(* C02 (level A, FdlBuild): one invocation per Buildable instance, after   *)
(* its dependencies; the built graph mirrors the configuration graph.      *)
(*                                                                         *)
(* Phase "gen"  : the heap is created bottom-up (NewObj).                  *)
(* Phase "build": fdl.build(root).  Call(o) is enabled iff o is a reachable*)
(*                Buildable that has not been called and every Buildable   *)
(*                it depends on has been called.  Any enabled order is     *)
(*                allowed -- the statement fixes nothing more.             *)
(* Phase "done" : the result is the heap with every config replaced by an  *)
(*                instance node: same object -> same result, distinct      *)
(*                objects -> distinct results.                             *)
(***************************************************************************)
EXTENDS FdlHeap, Json

CONSTANTS MaxObjs, MaxItems, NLeaves, NKeys, NFns, NSlots,
          KindSet,     \* subset of {"config", "list", "tuple", "dict", "ntuple"}
          WithBuild,   \* explore the build phase (interleavings of Call)
          EmitOn

VARIABLES heap, phase, called

KindPool ==
     (IF "config" \in KindSet THEN {[k |-> "config", fn |-> f, slots |-> NSlots] : f \in 1..NFns}
      ELSE {})
  \cup (IF "list" \in KindSet THEN {[k |-> "list", fn |-> 0, slots |-> 0]} ELSE {})
  \cup (IF "tuple" \in KindSet THEN {[k |-> "tuple", fn |-> 0, slots |-> 0]} ELSE {})
  \cup (IF "dict" \in KindSet THEN {[k |-> "dict", fn |-> 0, slots |-> 0]} ELSE {})
  \cup (IF "ntuple" \in KindSet THEN {[k |-> "ntuple", fn |-> 0, slots |-> 2]} ELSE {})

Root == Len(heap)

Init == heap = <<>> /\ phase = "gen" /\ called = <<>>

NewObj ==
  /\ phase = "gen"
  /\ Len(heap) < MaxObjs
  /\ \E kd \in KindPool : \E o \in NewObjects(heap, kd, MaxItems, NLeaves, NKeys) :
       heap' = Append(heap, o)
  /\ UNCHANGED <<phase, called>>

StartBuild ==
  /\ WithBuild
  /\ phase = "gen"
  /\ Complete(heap)
  /\ phase' = "build"
  /\ UNCHANGED <<heap, called>>

CallEnabled(h, root, done, o) ==
  /\ o \in ReachableBuildables(h, root)
  /\ o \notin done
  /\ BuildableDeps(h, o) \subseteq done

Call(o) ==
  /\ phase = "build"
  /\ CallEnabled(heap, Root, Range(called), o)
  /\ called' = Append(called, o)
  /\ UNCHANGED <<heap, phase>>

Finish ==
  /\ phase = "build"
  /\ ReachableBuildables(heap, Root) \subseteq Range(called)
  /\ phase' = "done"
  /\ UNCHANGED <<heap, called>>

Next == NewObj \/ StartBuild \/ (\E o \in 1..Len(heap) : Call(o)) \/ Finish

\* internable (leaf-only) tuples have value semantics in fiddle; the generator
\* does not share them (C08 and C06 treat them explicitly)
LeafOnly(o) == o.k \in {"tuple", "ntuple"} /\ \A j \in 1..Len(o.items) : ~IsRef(o.items[j].val)
RefCount(h, i) ==
  Cardinality({<<j, m>> \in (1..Len(h)) \X (1..MaxItems + 1) :
                 m <= Len(h[j].items) /\ h[j].items[m].val = -i})
NoSharedInternable ==
  /\ \A i \in 1..Len(heap) : LeafOnly(heap[i]) => RefCount(heap, i) <= 1
  \* CPython has a single empty tuple object
  /\ Cardinality({i \in 1..Len(heap) : heap[i].k = "tuple" /\ heap[i].items = <<>>}) <= 1

Prune == Adoptable(heap, MaxObjs, MaxItems) /\ NoSharedInternable

\* The built graph: configs become instances; everything else is rebuilt as
\* the same kind with the same keys; references follow the object map.
BuiltKind(k) == IF k = "config" THEN "inst" ELSE k
Built(h) == [i \in 1..Len(h) |-> Obj(BuiltKind(h[i].k), h[i].fn, h[i].items)]

(* --------------------------- checked formulas -------------------------- *)
ExactlyOnce ==
  phase = "done" =>
    /\ Range(called) = ReachableBuildables(heap, Root)
    /\ Len(called) = Cardinality(Range(called))
DepsFirst ==
  \A i \in 1..Len(called) :
    BuildableDeps(heap, called[i]) \subseteq {called[j] : j \in 1..i - 1}
\* the result graph is isomorphic to the configuration graph (same sharing,
\* distinct nodes stay distinct), and only kinds differ
MirrorsConfig ==
  phase = "done" =>
    LET b == Canon(Built(heap), Root)  c == Canon(heap, Root) IN
    /\ Len(b) = Len(c)
    /\ \A i \in 1..Len(c) : b[i].items = c[i].items /\ b[i].k = BuiltKind(c[i].k)
\* the build can always be completed (no deadlock among dependencies: DAG)
Progress ==
  phase = "build" =>
    \/ ReachableBuildables(heap, Root) \subseteq Range(called)
    \/ \E o \in 1..Len(heap) : CallEnabled(heap, Root, Range(called), o)

EmitHeap ==
  (EmitOn /\ phase = "gen" /\ Complete(heap) /\ Prune) =>
    PrintT(ToJson([heap |-> Canon(heap, Root),
                   built |-> Canon(Built(heap), Root),
                   buildables |-> [o \in 1..Len(Canon(heap, Root)) |->
                                     IsBuildableKind(Canon(heap, Root)[o].k)],
                   deps |-> [o \in 1..Len(Canon(heap, Root)) |->
                               LET c == Canon(heap, Root) IN
                               IF IsBuildableKind(c[o].k)
                               THEN SetToSeq(BuildableDeps(c, o)) ELSE <<>>]]))
=============================================================================
