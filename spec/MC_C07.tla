------------------------------- MODULE MC_C07 -------------------------------
(***************************************************************************)
(* C07 (level A, FdlCopy): copies are faithful and independent.            *)
(*                                                                         *)
(* Phase "gen"    : the original configuration is created (FdlGen).        *)
(* Phase "copied" : one of the copy operations has produced a second root  *)
(*                  in the same heap:                                      *)
(*     deep kinds    (deepcopy, pickle, deepcopy_with): every reachable    *)
(*                   object is duplicated; references are remapped         *)
(*     shallow kinds (copy, cast, copy_with): one new top-level object     *)
(*                   whose items hold the same values                      *)
(* Phase "edited" : one edit has been applied to (an object of) the copy.  *)
(*                                                                         *)
(* Checked: DeepFaithful, DeepDisjoint, ShallowFresh, ShallowValuesShared, *)
(* and OriginalUnaffected (action property over the edit step).            *)
(***************************************************************************)
EXTENDS FdlGen, FdlBuild, FdlEdit, Json

CONSTANT EmitOn

VARIABLES phase, kind, rootO, rootC, edit, snapO, copy0, shared0

vars == <<heap, phase, kind, rootO, rootC, edit, snapO, copy0, shared0>>

DeepKinds == {"deepcopy", "pickle", "deepcopy_with"}
ShallowKinds == {"copy", "cast", "cast_same", "copy_with"}
NoEdit == [name |-> "none", obj |-> 0, key |-> 0, arg |-> 0]

Init == /\ GenInit /\ phase = "gen" /\ kind = "" /\ rootO = 0 /\ rootC = 0
        /\ edit = NoEdit /\ snapO = <<>> /\ copy0 = <<>> /\ shared0 = 0

GenStep == /\ phase = "gen" /\ NewObj
           /\ UNCHANGED <<phase, kind, rootO, rootC, edit, snapO, copy0, shared0>>

OtherKind(k) == IF k = "config" THEN "partial" ELSE "config"

DoCopy(kd) ==
  /\ phase = "gen"
  /\ IsComplete
  /\ IsBuildableKind(heap[Root].k)
  /\ kind' = kd
  /\ rootO' = Root
  /\ snapO' = Canon(heap, Root)
  /\ LET h1 == CASE kd \in {"deepcopy", "pickle"} -> DeepCopyHeap(heap, Root)
                 [] kd = "deepcopy_with" -> SetArg(DeepCopyHeap(heap, Root), Len(heap) + 1, NSlots, 7)
                 [] kd = "copy" -> ShallowCopyHeap(heap, Root, heap[Root].k)
                 [] kd = "cast" -> ShallowCopyHeap(heap, Root, OtherKind(heap[Root].k))
                 [] kd = "cast_same" -> ShallowCopyHeap(heap, Root, heap[Root].k)
                 [] kd = "copy_with" -> SetArg(ShallowCopyHeap(heap, Root, heap[Root].k),
                                               Len(heap) + 1, NSlots, 7)
     IN /\ heap' = h1
        /\ rootC' = Len(heap) + 1
        /\ copy0' = Canon(h1, Len(heap) + 1)
        /\ shared0' = Cardinality({o \in Reach(h1, Len(heap) + 1) \cap Reach(h1, Root) :
                                      h1[o].k \notin {"tuple", "ntuple"}})
  /\ phase' = "copied"
  /\ edit' = NoEdit

\* objects that belong to the copy only (not reachable from the original)
CopyOnly == Reach(heap, rootC) \ Reach(heap, rootO)

DoEdit ==
  /\ phase = "copied"
  /\ \E o \in CopyOnly :
       \/ /\ IsBuildableKind(heap[o].k)
          /\ \E slot \in 1..NSlots :
               \/ /\ heap' = SetArg(heap, o, slot, 9)
                  /\ edit' = [name |-> "setarg", obj |-> Pos(Dfs(heap, <<rootC>>, <<>>), o),
                              key |-> slot, arg |-> 9]
               \/ /\ \E j \in 1..Len(heap[o].items) :
                         heap[o].items[j].key = slot /\ heap[o].items[j].val # 0
                  /\ heap' = DelArg(heap, o, slot)
                  /\ edit' = [name |-> "delarg", obj |-> Pos(Dfs(heap, <<rootC>>, <<>>), o),
                              key |-> slot, arg |-> 0]
               \/ /\ \E t \in {1, 4} :
                       /\ heap' = SetTags(heap, o, slot, t)
                       /\ edit' = [name |-> "settags", obj |-> Pos(Dfs(heap, <<rootC>>, <<>>), o),
                                   key |-> slot, arg |-> t]
               \/ /\ TagOf(heap, o, slot) # 0
                  /\ heap' = SetTags(heap, o, slot, 0)
                  /\ edit' = [name |-> "cleartags", obj |-> Pos(Dfs(heap, <<rootC>>, <<>>), o),
                              key |-> slot, arg |-> 0]
       \/ /\ heap[o].k = "list"
          /\ heap' = AppendList(heap, o, 9)
          /\ edit' = [name |-> "append", obj |-> Pos(Dfs(heap, <<rootC>>, <<>>), o),
                      key |-> 0, arg |-> 9]
  /\ phase' = "edited"
  /\ UNCHANGED <<kind, rootO, rootC, snapO, copy0, shared0>>

Next == GenStep
        \/ (\E kd \in DeepKinds \cup ShallowKinds : DoCopy(kd))
        \/ DoEdit

Prune == phase = "gen" => GenPrune

(* --------------------------- checked formulas -------------------------- *)
DeepFaithful ==
  (phase = "copied" /\ kind \in {"deepcopy", "pickle"}) =>
     Canon(heap, rootC) = Canon(heap, rootO)
\* tuples are immutable values: CPython's deepcopy hands back the same tuple when
\* nothing inside it had to be copied, so their identity is exempt
MutableObj(h, o) == h[o].k \notin {"tuple", "ntuple"}
DeepDisjoint ==
  (phase = "copied" /\ kind \in DeepKinds) =>
     Reach(heap, rootC) \cap Reach(heap, rootO) = {}   \* the model copies tuples too
ShallowFresh ==
  (phase = "copied" /\ kind \in ShallowKinds) => rootC \notin Reach(heap, rootO)
ShallowValuesShared ==
  (phase = "copied" /\ kind \in {"copy", "cast", "cast_same"}) =>
     heap[rootC].items = heap[rootO].items
\* editing any copy never changes what the original reports or builds
OriginalUnaffected ==
  [][phase # "gen" => /\ Canon(heap', rootO') = Canon(heap, rootO)
                      /\ BuiltCanon(heap', rootO') = BuiltCanon(heap, rootO)]_vars
OriginalIsSnapshot ==
  phase # "gen" => Canon(heap, rootO) = snapO

Emit ==
  (EmitOn /\ phase = "edited") =>
    PrintT(ToJson([orig |-> snapO, kind |-> kind, copy0 |-> copy0, edit |-> edit,
                   copy1 |-> Canon(heap, rootC),
                   shared |-> shared0]))
=============================================================================
