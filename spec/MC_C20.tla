------------------------------- MODULE MC_C20 -------------------------------
(***************************************************************************)
(* C20: configurations in the bound (Partials, TaggedValues with and       *)
(* without value, tags, containers) for the transformation clauses.  Model *)
(* level: the reference materialize_defaults satisfies SameMeaning,        *)
(* StaysEqual, AllExplicit and Idempotent on every heap (the clauses are   *)
(* satisfiable, the heaps non-vacuous).  The real transformations are      *)
(* judged by Trace_C20 on these same heaps.                                *)
(***************************************************************************)
EXTENDS FdlGen, FdlTransforms, Json

CONSTANT EmitOn
Init == GenInit
Next == NewObj

RefSatisfiesClauses ==
  (IsComplete /\ GenPrune) =>
    LET m == RefMaterialize(heap) IN
    /\ SameMeaning(heap, Root, m, Root)
    /\ Equiv(heap, Root, m, Root)
    /\ AllExplicit(m, Root)
    /\ RefMaterialize(m) = m

Emit == (EmitOn /\ IsComplete /\ GenPrune) => PrintT(ToJson([heap |-> Canon(heap, Root)]))
=============================================================================
