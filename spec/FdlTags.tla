------------------------------- MODULE FdlTags -------------------------------
(***************************************************************************)
(* C14 (level A): tags select exactly the tagged arguments.                *)
(*                                                                         *)
(* Tag hierarchy (bitmask on every Buildable argument, field tg):          *)
(*     bit 1 = T0,  bit 2 = T1 (a subclass of T0),  bit 4 = T2 (unrelated) *)
(*                                                                         *)
(* Operations are functional: ApplyTagOp(h, root, op) = [out, h, ret].     *)
(*   op = [name, tag, val, obj, key]                                       *)
(*   set_tagged / replace / replace_shared : assign to every argument of   *)
(*        every reachable Buildable whose tag set meets Sub(tag); all      *)
(*        other arguments and every tag set are unchanged (frame)          *)
(*   iter          : what iterating the tag selection yields               *)
(*   list_tags / list_tags_super                                           *)
(*   add_tag / remove_tag / set_tags / clear_tags on (obj, key)            *)
(***************************************************************************)
EXTENDS FdlHeap

HasBit(m, b) == (m \div b) % 2 = 1
SubMask(t) == CASE t = 1 -> 3 [] t = 2 -> 2 [] t = 4 -> 4 [] OTHER -> 0
Matches(tg, t) == \E b \in {1, 2, 4} : HasBit(tg, b) /\ HasBit(SubMask(t), b)
BitOr(a, b) ==
  (IF HasBit(a, 1) \/ HasBit(b, 1) THEN 1 ELSE 0) + (IF HasBit(a, 2) \/ HasBit(b, 2) THEN 2 ELSE 0)
  + (IF HasBit(a, 4) \/ HasBit(b, 4) THEN 4 ELSE 0)
BitClear(a, b) == a - (IF HasBit(a, b) THEN b ELSE 0)
DfltOf(slot) == 1000 + slot

TRes(o, h, r) == [out |-> o, h |-> h, ret |-> r]

\* assign `valOf(o, j)` to every matching argument of every Buildable (reachable or
\* not: what is no longer reachable disappears in the canonical form)
AssignTagged(h, t, valOf(_, _)) ==
  [o \in 1..Len(h) |->
     IF ~IsBuildableKind(h[o].k) /\ h[o].k # "tagged" THEN h[o]
     ELSE [h[o] EXCEPT !.items =
             [j \in 1..Len(h[o].items) |->
                IF Matches(h[o].items[j].tg, t)
                THEN ItemT(h[o].items[j].key, valOf(o, j), h[o].items[j].tg)
                ELSE h[o].items[j]]]]

\* number the matching (object, item) positions, for per-location fresh copies
MatchPositions(h, t) ==
  {<<o, j>> \in (1..Len(h)) \X (1..8) :
     j <= Len(h[o].items) /\ (IsBuildableKind(h[o].k) \/ h[o].k = "tagged")
     /\ Matches(h[o].items[j].tg, t)}
RankOf(S, x) == Cardinality({y \in S : y[1] < x[1] \/ (y[1] = x[1] /\ y[2] <= x[2])})

FreshConfig == Obj("config", 1, <<>>)

SetTaggedLeaf(h, t, v) == AssignTagged(h, t, LAMBDA o, j : v)
SetTaggedShared(h, t) ==      \* one new Buildable referenced from every location
  LET n == Len(h) IN Append(AssignTagged(h, t, LAMBDA o, j : -(n + 1)), FreshConfig)
SetTaggedCopies(h, t) ==      \* a separate copy of the new Buildable at every location
  LET n == Len(h)  mp == MatchPositions(h, t) IN
  AssignTagged(h, t, LAMBDA o, j : -(n + RankOf(mp, <<o, j>>)))
    \o [i \in 1..Cardinality(mp) |-> FreshConfig]

\* values yielded by iterating the tag selection: value, else default, else NO_VALUE
\* (encoded 999; only a stand-alone TaggedValue has a parameter without default)
NOVAL == 999
YieldOf(h, p) ==
  LET it == h[p[1]].items[p[2]] IN
  IF it.val # 0 THEN it.val
  ELSE IF h[p[1]].k = "tagged" THEN NOVAL ELSE DfltOf(it.key)
\* result: a multiset, as a sequence of <<value, multiplicity>>
TagIter(h, root, t) ==
  LET rb == {o \in Reach(h, root) : IsBuildableKind(h[o].k) \/ h[o].k = "tagged"}
      ps == {p \in MatchPositions(h, t) : p[1] \in rb}
      vals == {YieldOf(h, p) : p \in ps}
  IN MsSeq([v \in vals |-> Cardinality({p \in ps : YieldOf(h, p) = v})])

TagUnion(h, root) ==
  LET rb == {o \in Reach(h, root) : IsBuildableKind(h[o].k) \/ h[o].k = "tagged"} IN
  LET has(b) == \E o \in rb : \E j \in 1..Len(h[o].items) : HasBit(h[o].items[j].tg, b) IN
  (IF has(1) THEN 1 ELSE 0) + (IF has(2) THEN 2 ELSE 0) + (IF has(4) THEN 4 ELSE 0)
WithSupers(m) == IF HasBit(m, 2) THEN BitOr(m, 1) ELSE m

\* --- per-argument tag edits (frame: only the tg of that argument changes) ---
ItemIdx(h, o, key) ==
  LET js == {j \in 1..Len(h[o].items) : h[o].items[j].key = key} IN
  IF js = {} THEN 0 ELSE CHOOSE j \in js : TRUE
TagAt(h, o, key) == IF ItemIdx(h, o, key) = 0 THEN 0 ELSE h[o].items[ItemIdx(h, o, key)].tg
WithTag(h, o, key, t) ==
  LET its == h[o].items
      j == ItemIdx(h, o, key)
      before == SelectSeq(its, LAMBDA it : it.key < key)
      after == SelectSeq(its, LAMBDA it : it.key > key)
      raw == IF j # 0 THEN [i \in 1..Len(its) |-> IF i = j THEN ItemT(key, its[i].val, t) ELSE its[i]]
             ELSE before \o <<ItemT(key, 0, t)>> \o after
  IN [h EXCEPT ![o].items = SelectSeq(raw, LAMBDA it : ~(it.val = 0 /\ it.tg = 0))]

ApplyTagOp(h, root, op) ==
  CASE op.name = "set_tagged" ->
         IF op.val > 0 THEN TRes("ok", SetTaggedLeaf(h, op.tag, op.val), <<>>)
         ELSE TRes("ok", SetTaggedShared(h, op.tag), <<>>)
    [] op.name = "replace" ->          \* select(tag=..).replace(v)  (deep copies v per location)
         IF op.val > 0 THEN TRes("ok", SetTaggedLeaf(h, op.tag, op.val), <<>>)
         ELSE TRes("ok", SetTaggedCopies(h, op.tag), <<>>)
    [] op.name = "replace_shared" ->   \* .replace(v, deepcopy=False)
         IF op.val > 0 THEN TRes("ok", SetTaggedLeaf(h, op.tag, op.val), <<>>)
         ELSE TRes("ok", SetTaggedShared(h, op.tag), <<>>)
    [] op.name = "iter" -> TRes("ok", h, TagIter(h, root, op.tag))
    [] op.name = "list_tags" -> TRes("ok", h, <<TagUnion(h, root)>>)
    [] op.name = "list_tags_super" -> TRes("ok", h, <<WithSupers(TagUnion(h, root))>>)
    [] op.name = "add_tag" ->
         TRes("ok", WithTag(h, op.obj, op.key, BitOr(TagAt(h, op.obj, op.key), op.tag)), <<>>)
    [] op.name = "remove_tag" ->
         IF HasBit(TagAt(h, op.obj, op.key), op.tag)
         THEN TRes("ok", WithTag(h, op.obj, op.key, BitClear(TagAt(h, op.obj, op.key), op.tag)), <<>>)
         ELSE TRes("raise", h, <<>>)
    [] op.name = "set_tags" -> TRes("ok", WithTag(h, op.obj, op.key, op.tag), <<>>)
    [] op.name = "clear_tags" -> TRes("ok", WithTag(h, op.obj, op.key, 0), <<>>)
=============================================================================
