------------------------------ MODULE Trace_C13 ------------------------------
(* C13 judge: one record per (diff, naming mode, old supplied?) with the abstract statement list of the
   emitted fiddler and the observed outcome of running it. *)
EXTENDS FdlFiddler, Json, IOUtils
Traces == JsonDeserialize(IOEnv.TRACE_FILE)
VARIABLE i
Failed(t) ==
  IF t.compiled # "T" THEN "does-not-compile"
  ELSE IF ~DefinedBeforeUse(t.stmts, t.env) THEN "used-before-definition"
  ELSE IF t.ran # "ok" THEN "raises"
  ELSE IF t.result # t.expected THEN "differs-from-apply_diff"
  ELSE ""
TInit == i = 0
TNext == /\ i < Len(Traces)
         /\ i' = i + 1
         /\ LET t == Traces[i + 1]  f == Failed(t) IN
            PrintT(ToJson([tid |-> t.tid, ok |-> f = "", failed |-> f,
                           at |-> FirstUndefined(t.stmts, t.env)]))
=============================================================================
