------------------------------ MODULE Trace_C16 ------------------------------
(***************************************************************************)
(* C->S for C16: recorded edit histories of real Buildables, each event    *)
(* with the history entries it appended (delta), their sequence ids and    *)
(* attribution, and the last entry per key.  A trace is accepted iff every *)
(* event is a step of FdlStore AND satisfies the history clauses of        *)
(* FdlHist.  One initial state per trace; verdict lines from the           *)
(* POSTCONDITION.  Several configurations are edited in an interleaved     *)
(* fashion by the driver; global uniqueness of sequence ids across all     *)
(* traces of the batch is checked at the end.                              *)
(***************************************************************************)
EXTENDS FdlHist, Json, IOUtils

Traces == JsonDeserialize(IOEnv.TRACE_FILE)

VARIABLES tid, l, S, tgs, depth, stale, tstale, maxseq, why

SigOf(t) == [i \in 1..Len(Traces[t].sig) |->
               [kind |-> Traces[t].sig[i].k, dflt |-> Traces[t].sig[i].d]]
Events(t) == Traces[t].events
IsRead(op) == op.name \in {"getitem", "getslice", "getattr", "oargs", "dir"}
StoreOps == {"getitem", "setitem", "delitem", "getslice", "setslice", "delslice",
             "getattr", "setattr", "delattr", "oargs", "dir"}
TagOps == {"addtag", "removetag", "settags", "cleartags"}

HasBit(m, b) == (m \div b) % 2 = 1
BitOr(a, b) ==
  (IF HasBit(a, 1) \/ HasBit(b, 1) THEN 1 ELSE 0) + (IF HasBit(a, 2) \/ HasBit(b, 2) THEN 2 ELSE 0)
  + (IF HasBit(a, 4) \/ HasBit(b, 4) THEN 4 ELSE 0)
MaskOf(t, k) == IF \E p \in t : p[1] = k THEN (CHOOSE p \in t : p[1] = k)[2] ELSE 0
WithMask(t, k, m) == {p \in t : p[1] # k} \cup (IF m = 0 THEN {} ELSE {<<k, m>>})

RECURSIVE ApplyAssign(_, _, _)
ApplyAssign(sg, s, kv) ==     \* kv = <<name1, val1, name2, val2, ...>>
  IF kv = <<>> THEN s
  ELSE ApplyAssign(sg, SetAttr(sg, s, kv[1], kv[2]).S, SubSeq(kv, 3, Len(kv)))
AssignNames(kv) == {200 + kv[i] : i \in {j \in 1..Len(kv) : j % 2 = 1}}

Materialized(sg, s) ==
  [s EXCEPT !.pre = [i \in 1..Len(s.pre) |-> IF s.pre[i] = UNSET /\ sg[i].dflt THEN Dflt(i) ELSE s.pre[i]],
            !.ko = [i \in 1..Len(s.ko) |->
                      IF sg[i].kind = "KO" /\ s.ko[i] = UNSET /\ sg[i].dflt THEN Dflt(i) ELSE s.ko[i]]]

SeqsOK(ev, ms) ==
  /\ Len(ev.seqs) = Len(ev.delta)
  /\ \A i \in 1..Len(ev.seqs) - 1 : ev.seqs[i] < ev.seqs[i + 1]
  /\ (ev.seqs # <<>> => ev.seqs[1] > ms)
Attributed(ev) == \A i \in 1..Len(ev.internal) : ev.internal[i] = 0
KeysIn(delta) == {delta[i].key : i \in {j \in 1..Len(delta) : delta[j].kind \in {"v", "d"}}}

\* every non-stale key that holds a value ends its history with that value
LastOK(sg, s2, ev, st) ==
  /\ \A i \in 1..Len(ev.last) : ev.last[i].key \notin st /\ ev.last[i].key # FnKey =>
        Reflects(sg, s2, ev.last[i])
  /\ \A k \in Codes(sg, s2) : (Stored(sg, s2, k) # UNSET /\ k \notin st) =>
        \E i \in 1..Len(ev.last) : ev.last[i].key = k
LastTagOK(ev, t2, tst) ==
  \A i \in 1..Len(ev.lasttag) : ev.lasttag[i][1] \notin tst =>
     ev.lasttag[i][2] = MaskOf(t2, ev.lasttag[i][1])

\* which clause rejects event ev in the current state ("" = accepted)
Verdict(sg, ev) ==
  LET trk == depth = 0 IN
  IF ev.op.name \in StoreOps THEN
    LET r == Apply(sg, S, ev.op)
        s2 == IF ev.out = "ok" THEN r.S ELSE S
        st2 == (stale \cup (IF trk THEN {} ELSE Changed(sg, S, s2))) \ KeysIn(ev.delta)
    IN
    IF ev.stray # 0 THEN "stray-keys"
    ELSE IF ~(r.out = "either" \/ r.out = ev.out) THEN "outcome"
    ELSE IF ev.post # s2 THEN "state"
    \* (a log of edits: an operation that was refused is no edit and logs nothing)
    ELSE IF ev.out = "raise" /\ ev.delta # <<>> THEN "refused-operation-logged"
    ELSE IF ~DeltaOK(sg, S, s2, ev.op, ev.delta, trk) THEN "delta"
    ELSE IF ~SeqsOK(ev, maxseq) THEN "sequence-ids"
    ELSE IF ~Attributed(ev) THEN "attribution"
    ELSE IF ~LastOK(sg, s2, ev, st2) THEN "last-entry"
    ELSE IF ~LastTagOK(ev, tgs, tstale) THEN "last-tags"
    ELSE ""
  ELSE IF ev.op.name \in TagOps THEN
    LET k == ev.op.a
        old == MaskOf(tgs, k)
        new == CASE ev.op.name = "addtag" -> BitOr(old, ev.op.b)
                 [] ev.op.name = "removetag" -> IF HasBit(old, ev.op.b) THEN old - ev.op.b ELSE old
                 [] ev.op.name = "settags" -> ev.op.b
                 [] OTHER -> 0
        expOut == IF ev.op.name = "removetag" /\ ~HasBit(old, ev.op.b) THEN "raise" ELSE "ok"
    IN
    IF ev.out # expOut THEN "outcome"
    ELSE IF ev.post # S THEN "state"
    ELSE IF ev.out = "ok" /\ ~TagDeltaOK(k, new, ev.delta, trk) THEN "tag-delta"
    ELSE IF ev.out = "raise" /\ ev.delta # <<>> THEN "tag-delta"
    ELSE IF ~SeqsOK(ev, maxseq) THEN "sequence-ids"
    \* (tag edits go through fiddle's tagging functions; the repository's own tests pin
    \* their entries to `add_tag`, so attribution is required of direct edits only)
    ELSE ""
  ELSE IF ev.op.name = "assigntv" THEN
    \* cfg.<name> = TaggedValue(tags, value): the value is stored, the tags are merged
    LET r == SetAttr(sg, S, ev.op.a, ev.op.vals[1])
        k == 200 + ev.op.a
        merged == BitOr(MaskOf(tgs, k), ev.op.b)
        vd == SelectSeq(ev.delta, LAMBDA e : e.kind \in {"v", "d"})
        td == SelectSeq(ev.delta, LAMBDA e : e.kind = "t")
    IN
    IF ev.out # r.out THEN "outcome"
    ELSE IF ev.post # r.S THEN "state"
    ELSE IF ~DeltaOK(sg, S, r.S, [name |-> "setattr", a |-> ev.op.a, b |-> 0, c |-> 0, vals |-> <<>>],
                     vd, trk) THEN "delta"
    ELSE IF trk /\ ~(td # <<>> /\ (\A n \in 1..Len(td) : td[n].key = k) /\ td[Len(td)].val = merged)
         THEN "tag-delta"
    ELSE IF ~trk /\ td # <<>> THEN "tag-delta"
    ELSE IF ~Attributed(ev) THEN "attribution"
    ELSE ""
  ELSE IF ev.op.name \in {"suspend_enter", "suspend_exit"} THEN
    IF ev.delta # <<>> \/ ev.post # S THEN "suspend-changes-something" ELSE ""
  ELSE IF ev.op.name = "assign" THEN
    LET s2 == ApplyAssign(sg, S, ev.op.vals) IN
    IF ev.out # "ok" THEN "outcome"
    ELSE IF ev.post # s2 THEN "state"
    ELSE IF ~DeltaOK(sg, S, s2, [name |-> "setattr", a |-> 0, b |-> 0, c |-> 0, vals |-> <<>>],
                     SelectSeq(ev.delta, LAMBDA e : e.key \in Changed(sg, S, s2)), trk)
            \/ ~(KeysIn(ev.delta) \subseteq AssignNames(ev.op.vals)) THEN "delta"
    ELSE IF ~SeqsOK(ev, maxseq) THEN "sequence-ids"
    ELSE IF ~Attributed(ev) THEN "attribution"
    ELSE ""
  ELSE IF ev.op.name = "materialize" THEN
    LET s2 == Materialized(sg, S) IN
    IF ev.out # "ok" THEN "outcome"
    ELSE IF ev.post # s2 THEN "state"
    ELSE IF ~DeltaOK(sg, S, s2, ev.op, ev.delta, trk) THEN "delta"
    ELSE IF ~SeqsOK(ev, maxseq) THEN "sequence-ids"
    ELSE IF ~Attributed(ev) THEN "attribution"
    ELSE ""
  ELSE IF ev.op.name = "update_callable" THEN
    IF ev.out # "ok" \/ ev.post # S THEN "state"
    ELSE IF trk /\ ~(Len(ev.delta) = 1 /\ ev.delta[1].key = FnKey /\ ev.delta[1].kind = "v") THEN "delta"
    ELSE IF ~trk /\ ev.delta # <<>> THEN "delta"
    ELSE IF ~SeqsOK(ev, maxseq) THEN "sequence-ids"
    ELSE IF ~Attributed(ev) THEN "attribution"
    ELSE ""
  ELSE "unknown-op"

TInit == \E t \in 1..Len(Traces) :
           /\ tid = t /\ l = 0 /\ S = Traces[t].init /\ tgs = {} /\ depth = 0
           /\ stale = {} /\ tstale = {} /\ maxseq = -1 /\ why = ""

TNext ==
  /\ l < Len(Events(tid))
  /\ why = ""
  /\ LET ev == Events(tid)[l + 1]
         sg == SigOf(tid)
         vd == Verdict(sg, ev)
         trk == depth = 0
     IN
     /\ why' = vd
     /\ l' = IF vd = "" THEN l + 1 ELSE l
     /\ S' = ev.post
     /\ tgs' = IF ev.op.name = "assigntv" /\ ev.out = "ok"
               THEN WithMask(tgs, 200 + ev.op.a, BitOr(MaskOf(tgs, 200 + ev.op.a), ev.op.b))
               ELSE IF ev.op.name \in TagOps /\ ev.out = "ok"
               THEN WithMask(tgs, ev.op.a,
                      CASE ev.op.name = "addtag" -> BitOr(MaskOf(tgs, ev.op.a), ev.op.b)
                        [] ev.op.name = "removetag" -> MaskOf(tgs, ev.op.a) - ev.op.b
                        [] ev.op.name = "settags" -> ev.op.b
                        [] OTHER -> 0)
               ELSE tgs
     /\ depth' = CASE ev.op.name = "suspend_enter" -> depth + 1
                   [] ev.op.name = "suspend_exit" -> depth - 1
                   [] OTHER -> depth
     /\ stale' = (stale \cup (IF trk THEN {} ELSE Changed(sg, S, ev.post))) \ KeysIn(ev.delta)
     /\ tstale' = IF ev.op.name = "assigntv"
                  THEN (IF trk THEN tstale \ {200 + ev.op.a} ELSE tstale \cup {200 + ev.op.a})
                  ELSE IF ev.op.name \in TagOps /\ ev.out = "ok"   \* (a refused tag edit logs and changes nothing)
                  THEN (IF trk THEN tstale \ {ev.op.a} ELSE tstale \cup {ev.op.a})
                  ELSE tstale
     /\ maxseq' = IF ev.seqs = <<>> THEN maxseq ELSE ev.seqs[Len(ev.seqs)]
  /\ tid' = tid

ASSUME \A t \in 1..Len(Traces) : TLCSet(t, <<0, "">>)
TProgress == TLCSet(tid, IF TLCGet(tid)[1] < l \/ why # "" THEN <<l, why>> ELSE TLCGet(tid))

AllSeqs == UNION {UNION {{Events(t)[e].seqs[i] : i \in 1..Len(Events(t)[e].seqs)}
                          : e \in 1..Len(Events(t))} : t \in 1..Len(Traces)}
\* (the number of entries is counted by the harness: a recursive sum over thousands of traces overflows
\* TLC's evaluation stack)
TReport ==
  /\ \A t \in 1..Len(Traces) :
       PrintT(ToJson([tid |-> Traces[t].tid, matched |-> TLCGet(t)[1], why |-> TLCGet(t)[2],
                      total |-> Len(Events(t))]))
  /\ PrintT(ToJson([tid |-> 0, matched |-> Cardinality(AllSeqs), why |-> "global-seq-unique",
                    total |-> 0]))
=============================================================================
