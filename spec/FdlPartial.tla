------------------------------ MODULE FdlPartial ------------------------------
(***************************************************************************)
(* C04 (level A): fdl.build(fdl.Partial(f, ...)) behaves like               *)
(* functools.partial; ArgFactory arguments are evaluated anew per call.    *)
(*                                                                         *)
(* An object is *fresh* iff it is an ArgFactory or a container that        *)
(* (directly or indirectly) holds one: such objects are re-created by      *)
(* every call of the built callable.  Everything else (Configs, containers *)
(* without factories) is created once at build time and passed through    *)
(* uncopied.  A call may override configured keywords.                     *)
(*                                                                         *)
(* JointResult(h, root, calls) is the object graph made of the results of  *)
(* all calls together (a synthetic list of the K results), so that         *)
(* "fresh per call" and "built once, shared by all calls" are statements   *)
(* about identities in one canonical form.                                 *)
(***************************************************************************)
EXTENDS FdlHeap

RECURSIVE Fresh(_, _)
Fresh(h, o) ==
  \/ h[o].k = "argfactory"
  \/ /\ h[o].k \in {"list", "tuple", "dict", "ntuple"}
     /\ \E j \in 1..Len(h[o].items) : IsRef(h[o].items[j].val) /\ Fresh(h, -h[o].items[j].val)

OverrideVal(k) == 50 + k

\* calls: sequence of sets of overridden slots
JointHeap(h, root, calls) ==
  LET n == Len(h)
      K == Len(calls)
      fid(k, o) == n + (k - 1) * n + o
      rid(k) == n + K * n + k
      mapv(k, v) == IF IsRef(v) /\ Fresh(h, -v) THEN -fid(k, -v) ELSE v
      resKind(kd) == IF kd \in {"config", "argfactory"} THEN "inst" ELSE kd
      base == [o \in 1..n |-> Obj(resKind(h[o].k), h[o].fn,
                                   [j \in 1..Len(h[o].items) |->
                                      Item(h[o].items[j].key, h[o].items[j].val)])]
      copies == [i \in 1..(K * n) |->
                   LET k == ((i - 1) \div n) + 1  o == ((i - 1) % n) + 1 IN
                   Obj(resKind(h[o].k), h[o].fn,
                       [j \in 1..Len(h[o].items) |->
                          Item(h[o].items[j].key, mapv(k, h[o].items[j].val))])]
      slotsOf(k) == {h[root].items[j].key : j \in 1..Len(h[root].items)} \cup calls[k]
      results == [k \in 1..K |->
                    LET ss == SetToSeq(slotsOf(k)) IN
                    Obj("inst", h[root].fn,
                        [i \in 1..Len(ss) |->
                           IF ss[i] \in calls[k] THEN Item(ss[i], OverrideVal(k))
                           ELSE LET j == CHOOSE x \in 1..Len(h[root].items) : h[root].items[x].key = ss[i]
                                IN Item(ss[i], mapv(k, h[root].items[j].val))])]
      forest == Obj("list", 0, [k \in 1..K |-> Item(k - 1, -rid(k))])
  IN base \o copies \o results \o <<forest>>

JointRoot(h, calls) == Len(h) + Len(calls) * Len(h) + Len(calls) + 1
JointResult(h, root, calls) == Canon(JointHeap(h, root, calls), JointRoot(h, calls))

\* shape restrictions of the statement's domain
WellFormed04(h, root) ==
  /\ h[root].k = "partial"
  /\ \A o \in 1..Len(h) : h[o].k = "partial" => o = root          \* (nested Partials: scenarios)
  \* an ArgFactory (or a container holding one) is no argument of a Config
  /\ \A o \in 1..Len(h) : h[o].k = "config" =>
        \A j \in 1..Len(h[o].items) : ~(IsRef(h[o].items[j].val) /\ Fresh(h, -h[o].items[j].val))
  \* fresh objects have a single use (whether two uses in one call share is not stated)
  /\ \A o \in 1..Len(h) : Fresh(h, o) =>
        Cardinality({<<p, j>> \in (1..Len(h)) \X (1..8) :
                       j <= Len(h[p].items) /\ h[p].items[j].val = -o}) <= 1
=============================================================================
