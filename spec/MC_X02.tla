------------------------------- MODULE MC_X02 -------------------------------
(***************************************************************************)
(* X02: every (signature, store state, keyword list of distinct names) in  *)
(* the bound; laws of Assign / CopyWith / Move; one line per case for the   *)
(* replay on the real fdl.assign, fdl.copy_with, fdl.deepcopy_with and      *)
(* move_buildable_internals.                                                *)
(***************************************************************************)
EXTENDS FdlBulk, Json

CONSTANTS MaxParams, MaxKws, EmitOn

VARIABLES sig, S, kws, sig2, T
vars == <<sig, S, kws, sig2, T>>

Vals == {UNSET, 1}
States(s) ==
  {st \in [pre : [1..NPos(s) -> Vals], va : {<<>>, <<2>>}, ko : [1..Len(s) -> Vals],
           ex : [1..Len(s) + 2 -> Vals]] :
      /\ WellFormed(s, st)
      /\ \A i \in 1..Len(s) : s[i].kind = "PO" => st.ex[i] = UNSET}

\* names an assignment may mention: every parameter name except the **kwargs parameter's own
\* name (outside FdlStore's domain), plus one name that is no parameter
Cand(s) == {n \in 1..Len(s) : s[n].kind # "VK"} \cup {101}
\* keyword lists: distinct names, the k-th keyword carries the value 2 + k
KwLists(s) ==
  UNION {{q \in [1..m -> Cand(s)] : \A i, j \in 1..m : i # j => q[i] # q[j]} : m \in 0..MaxKws}
WithVals(q) == [i \in 1..Len(q) |-> <<q[i], 2 + i>>]

Init ==
  /\ sig \in SigsUpTo(MaxParams)
  /\ S \in States(sig)
  /\ kws \in {WithVals(q) : q \in KwLists(sig)}
  \* the destination of Move: the empty store of any signature (it is overwritten)
  /\ sig2 \in {s \in SigsUpTo(1) : TRUE}
  /\ T = EmptyState(sig2)
Next == UNCHANGED vars

R == Assign(sig, S, kws)
C == CopyWith(sig, S, kws)
M == Move(sig, S, sig2, T)

\* accepted iff every name is assignable; otherwise exactly the prefix before the first
\* refused name has been applied
FirstBad == {k \in 1..Len(kws) : ~Accepts(sig, kws[k][1])}
OutcomeLaw ==
  /\ (R.out = "ok") = (FirstBad = {})
  /\ R.done = IF FirstBad = {} THEN Len(kws)
              ELSE (CHOOSE k \in FirstBad : \A j \in FirstBad : k <= j) - 1
PrefixLaw == R.S = Assign(sig, S, SubSeq(kws, 1, R.done)).S
ResultWellFormed == WellFormed(sig, R.S)
\* every assigned name holds its value, every other name keeps its own
ValuesLaw ==
  LET applied == SubSeq(kws, 1, R.done) IN
  \A n \in Names(sig) :
    (n <= Len(sig) => sig[n].kind # "VK") =>
      ValOf(sig, R.S, n) = IF n \in NamesOf(applied) THEN applied[ValIn(applied, n)][2]
                           ELSE ValOf(sig, S, n)
PositionalUntouched == R.S.va = S.va /\
  \A i \in 1..NPos(sig) : sig[i].kind = "PO" => R.S.pre[i] = S.pre[i]
\* keyword order does not matter for an accepted assignment
Commutes == R.out = "ok" => Assign(sig, S, Reverse(kws)).S = R.S
Idempotent == R.out = "ok" => Assign(sig, R.S, kws).S = R.S
CopyLaw == C.orig = S /\ (C.out = "ok" => C.new = R.S) /\ (C.out = "raise" => C.new = S)
MoveLaw == M.sig = sig /\ M.S = S
\* built afterwards, every applied keyword is received under its name
ReceivedByName ==
  R.out = "ok" =>
    LET b == BuildExpect(sig, R.S) IN
    b.out = "ok" =>
      \A k \in 1..Len(kws) :
        LET n == kws[k][1] IN
        IF n <= Len(sig) THEN b.loc[n] = <<kws[k][2]>>
        ELSE \E i \in 1..Len(sig) : sig[i].kind = "VK" /\
               \E j \in 1..Len(b.loc[i]) - 1 : b.loc[i][j] = n /\ b.loc[i][j + 1] = kws[k][2]

SigCode(s) == [i \in 1..Len(s) |-> [k |-> s[i].kind, d |-> s[i].dflt]]
Emit ==
  EmitOn => PrintT(ToJson([sig |-> SigCode(sig), S |-> S, kws |-> kws, sig2 |-> SigCode(sig2),
                           out |-> R.out, S2 |-> R.S, done |-> R.done,
                           bexp |-> BuildExpect(sig, R.S), bsrc |-> BuildExpect(sig, S)]))
=============================================================================
