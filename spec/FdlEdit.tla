------------------------------- MODULE FdlEdit -------------------------------
(***************************************************************************)
(* Edits of one object of a heap (the lifted setters of the Buildable      *)
(* store, on named parameter slots): shared by FdlCopy, FdlSelect,         *)
(* FdlTransforms, FdlDiff.                                                 *)
(***************************************************************************)
EXTENDS FdlHeap

\* setting argument `slot` of object o to leaf v keeps its tags
SetArg(h, o, slot, v) ==
  LET its == h[o].items
      has == \E j \in 1..Len(its) : its[j].key = slot
      upd == [j \in 1..Len(its) |->
                IF its[j].key = slot THEN ItemT(slot, v, its[j].tg) ELSE its[j]]
      before == SelectSeq(its, LAMBDA it : it.key < slot)
      after == SelectSeq(its, LAMBDA it : it.key > slot)
  IN [h EXCEPT ![o].items = IF has THEN upd ELSE before \o <<ItemT(slot, v, 0)>> \o after]

\* deleting an argument keeps its tags (a tagged argument without value remains)
DelArg(h, o, slot) ==
  LET its == h[o].items IN
  [h EXCEPT ![o].items =
     SelectSeq([j \in 1..Len(its) |->
                  IF its[j].key = slot THEN ItemT(slot, 0, its[j].tg) ELSE its[j]],
               LAMBDA it : ~(it.val = 0 /\ it.tg = 0))]

SetTags(h, o, slot, t) ==
  LET its == h[o].items
      has == \E j \in 1..Len(its) : its[j].key = slot
      before == SelectSeq(its, LAMBDA it : it.key < slot)
      after == SelectSeq(its, LAMBDA it : it.key > slot)
      upd == [j \in 1..Len(its) |->
                IF its[j].key = slot THEN ItemT(slot, its[j].val, t) ELSE its[j]]
      raw == IF has THEN upd ELSE before \o <<ItemT(slot, 0, t)>> \o after
  IN [h EXCEPT ![o].items = SelectSeq(raw, LAMBDA it : ~(it.val = 0 /\ it.tg = 0))]

TagOf(h, o, slot) ==
  LET js == {j \in 1..Len(h[o].items) : h[o].items[j].key = slot} IN
  IF js = {} THEN 0 ELSE h[o].items[CHOOSE j \in js : TRUE].tg

AppendList(h, o, v) ==
  [h EXCEPT ![o].items = Append(h[o].items, ItemT(Len(h[o].items), v, 0))]

\* ---- the copy operations on the abstract heap ----
DeepCopyHeap(h, root) ==
  LET ord == Dfs(h, <<root>>, <<>>)
      n == Len(h)
      remap(v) == IF IsRef(v) THEN -(n + Pos(ord, -v)) ELSE v
  IN h \o [i \in 1..Len(ord) |->
             Obj(h[ord[i]].k, h[ord[i]].fn,
                 [j \in 1..Len(h[ord[i]].items) |->
                    ItemT(h[ord[i]].items[j].key, remap(h[ord[i]].items[j].val),
                          h[ord[i]].items[j].tg)])]

ShallowCopyHeap(h, root, newKind) ==
  Append(h, Obj(newKind, h[root].fn, h[root].items))

=============================================================================
