------------------------------- MODULE FdlBulk -------------------------------
(***************************************************************************)
(* Extended coverage X02 (level A): the bulk-edit API on the argument      *)
(* store -- fdl.assign, fdl.copy_with / fdl.deepcopy_with and              *)
(* mutate_buildable.move_buildable_internals.  Not one of the listed       *)
(* properties.                                                              *)
(*                                                                         *)
(* Assign(sig, S, kws): kws is the keyword list in call order (Python       *)
(* keeps keyword order), each entry <<name, value>>.  assign is a plain     *)
(* left-to-right loop of attribute assignments: it is NOT atomic -- when    *)
(* the k-th name is refused, the first k-1 assignments stay (done = k-1).   *)
(* CopyWith works on a copy: the original never changes, and a refusal      *)
(* yields no result at all.  Move makes the destination's signature and     *)
(* store those of the source.                                               *)
(***************************************************************************)
EXTENDS FdlRecall

RECURSIVE Assign(_, _, _)
Assign(sig, S, kws) ==
  IF kws = <<>> THEN [out |-> "ok", S |-> S, done |-> 0]
  ELSE LET r == SetAttr(sig, S, Head(kws)[1], Head(kws)[2]) IN
       IF r.out # "ok" THEN [out |-> "raise", S |-> S, done |-> 0]
       ELSE LET rest == Assign(sig, r.S, Tail(kws)) IN
            [rest EXCEPT !.done = @ + 1]

CopyWith(sig, S, kws) ==
  LET r == Assign(sig, S, kws) IN
  [out |-> r.out, orig |-> S, new |-> IF r.out = "ok" THEN r.S ELSE S]

Move(srcSig, srcS, dstSig, dstS) == [sig |-> srcSig, S |-> srcS]

Reverse(q) == [i \in 1..Len(q) |-> q[Len(q) + 1 - i]]
NamesOf(kws) == {kws[i][1] : i \in 1..Len(kws)}
ValIn(kws, n) == (CHOOSE i \in 1..Len(kws) : kws[i][1] = n)
=============================================================================
