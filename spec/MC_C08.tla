------------------------------- MODULE MC_C08 -------------------------------
(***************************************************************************)
(* C08: all structures within the bound, with the path sets every          *)
(* traversal must report.  Model-level checks: AllPaths is sound and       *)
(* complete w.r.t. Follow, PathsTo partitions AllPaths, and a first-visit  *)
(* enumeration satisfies MemoOK (the clauses are satisfiable).             *)
(* Cyclic structures (AppendSelf) are covered by the harness scenario      *)
(* list; heaps generated here are DAGs by construction.                    *)
(***************************************************************************)
EXTENDS FdlGen, FdlPaths, Json

CONSTANT EmitOn

Init == GenInit
Next == NewObj

PathsSound ==
  IsComplete => \A pr \in AllPaths(heap, Root) : Sound(heap, Root, pr)
PathsPartition ==
  IsComplete =>
    /\ \A o \in Reach(heap, Root) : PathsTo(heap, Root, -o) # {}
    /\ PathsTo(heap, Root, -Root) = {<<>>}
    /\ UNION {{<<p, -o>> : p \in PathsTo(heap, Root, -o)} : o \in Reach(heap, Root)}
         = {pr \in AllPaths(heap, Root) : IsRef(pr[2])}
ClausesSatisfiable ==
  IsComplete => MemoOK(heap, Root, FirstVisitPairs(heap, Root))

EmitHeap ==
  (EmitOn /\ IsComplete /\ GenPrune) =>
    LET c == Canon(heap, Root) IN
    PrintT(ToJson([heap |-> c,
                   allpaths |-> AllPaths(c, 1),
                   pathsto |-> [o \in 1..Len(c) |-> PathsTo(c, 1, -o)]]))
=============================================================================
