------------------------------- MODULE MC_C04 -------------------------------
(***************************************************************************)
(* C04: every Partial / ArgFactory / Config / container nesting in the     *)
(* bound x every sequence of up to MaxCalls calls with 0 or 1 overridden   *)
(* keyword.  Model-level checks on the joint result: FreshAcrossCalls,     *)
(* BuiltOnce, OverrideWins.                                                *)
(***************************************************************************)
EXTENDS FdlGen, FdlPartial, Json

CONSTANTS EmitOn, MaxCalls

Init == GenInit
Next == NewObj

CallSeqs == UNION {[1..n -> {{}} \cup {{s} : s \in 1..NSlots}] : n \in 1..MaxCalls}
OK04 == IsComplete /\ GenPrune /\ WellFormed04(heap, Root)

Laws ==
  OK04 =>
    \A calls \in CallSeqs :
      LET J == JointHeap(heap, Root, calls)
          n == Len(heap)  K == Len(calls)
          reachK(k) == Reach(J, n + K * n + k)
      IN
      \* fresh objects of different calls are different objects
      /\ \A k1, k2 \in 1..K : k1 # k2 =>
           \A o \in reachK(k1) \cap reachK(k2) : o <= n
      \* build-time objects reached by a call are never fresh kinds
      /\ \A k \in 1..K : \A o \in reachK(k) : o <= n => ~Fresh(heap, o)
      \* an overriding keyword wins
      /\ \A k \in 1..K : \A s \in calls[k] :
           \E j \in 1..Len(J[n + K * n + k].items) :
             J[n + K * n + k].items[j].key = s /\ J[n + K * n + k].items[j].val = OverrideVal(k)

Emit ==
  (EmitOn /\ OK04) =>
    \A calls \in CallSeqs :
      PrintT(ToJson([heap |-> Canon(heap, Root),
                     calls |-> [k \in 1..Len(calls) |-> SetToSeq(calls[k])],
                     joint |-> JointResult(heap, Root, calls)]))
=============================================================================
