------------------------------- MODULE FdlHeap -------------------------------
(***************************************************************************)
(* The shared heap machine: configurations as object graphs.               *)
(*                                                                         *)
(*   value : Int      n > 0  leaf n (immutable, no identity)               *)
(*                    n < 0  reference to heap[-n]                         *)
(*   object: [k, fn, items]                                                *)
(*     k     in {"config","partial","list","tuple","dict","ntuple",        *)
(*               "tagged"}  (tagged = a stand-alone TaggedValue: one item,  *)
(*               key 1, its value, tg = its tags)                          *)
(*     fn    callable index for Buildables (0 for containers)              *)
(*     items sequence of [key, val, tg]; key = parameter slot for          *)
(*           Buildables (ascending = signature order), position for        *)
(*           sequences, key id for dicts (sequence order = insertion       *)
(*           order); val = 0 only for a tagged argument without a value;   *)
(*           tg = bitmask of the tags attached to a Buildable's argument   *)
(*                                                                         *)
(* Heaps are built bottom-up by the action NewObj -- the model of "create  *)
(* an object whose arguments/items are existing objects or leaves" -- so   *)
(* an object only refers to older objects and every heap is a DAG.  The    *)
(* root is the youngest object.                                            *)
(***************************************************************************)
EXTENDS Integers, Sequences, FiniteSets, TLC

Range(q) == {q[i] : i \in 1..Len(q)}
SetToSeq(s) ==   \* ascending
  LET RECURSIVE F(_)
      F(t) == IF t = {} THEN <<>>
              ELSE LET m == CHOOSE x \in t : \A y \in t : x <= y IN <<m>> \o F(t \ {m})
  IN F(s)
\* a multiset given as a function value -> multiplicity, rendered as the sequence of
\* <<value, multiplicity>> pairs in ascending value order (ToJson cannot tell a function
\* with domain 1..n from a sequence)
MsSeq(f) == LET d == SetToSeq(DOMAIN f) IN [i \in 1..Len(d) |-> <<d[i], f[d[i]]>>]
IsRef(v) == v < 0
Item(k, v) == [key |-> k, val |-> v, tg |-> 0]
ItemT(k, v, t) == [key |-> k, val |-> v, tg |-> t]   \* t: bitmask of tags on the argument
Obj(k, fn, items) == [k |-> k, fn |-> fn, items |-> items]
IsBuildableKind(k) == k \in {"config", "partial", "argfactory"}

Refs(o) == SelectSeq([i \in 1..Len(o.items) |-> o.items[i].val], IsRef)
Children(h, i) == [j \in 1..Len(Refs(h[i])) |-> -Refs(h[i])[j]]

\* First-visit depth-first order from `root`, children in item order.
RECURSIVE Dfs(_, _, _)
Dfs(h, stack, seen) ==
  IF stack = <<>> THEN seen
  ELSE LET o == Head(stack) IN
       IF o \in Range(seen) THEN Dfs(h, Tail(stack), seen)
       ELSE Dfs(h, Children(h, o) \o Tail(stack), Append(seen, o))

Reach(h, root) == Range(Dfs(h, <<root>>, <<>>))
Pos(seq, x) == CHOOSE i \in 1..Len(seq) : seq[i] = x

\* Canonical form: objects renumbered by first visit from the root.  Two
\* rooted heaps are isomorphic (same kinds, callables, keys, leaves and the
\* same sharing) iff their canonical forms are equal.
Canon(h, root) ==
  LET ord == Dfs(h, <<root>>, <<>>) IN
  [i \in 1..Len(ord) |->
     LET o == h[ord[i]] IN
     Obj(o.k, o.fn,
         [j \in 1..Len(o.items) |->
            ItemT(o.items[j].key,
                  IF IsRef(o.items[j].val) THEN -Pos(ord, -o.items[j].val)
                  ELSE o.items[j].val,
                  o.items[j].tg)])]

Iso(h1, r1, h2, r2) == Canon(h1, r1) = Canon(h2, r2)

\* Strict descendants that are Buildables.
BuildableDeps(h, o) == {d \in Reach(h, o) \ {o} : IsBuildableKind(h[d].k)}

\* Transitive reachability as a relation, for action-level specs.
ReachableBuildables(h, root) == {o \in Reach(h, root) : IsBuildableKind(h[o].k)}

(* ------------------------------ paths ---------------------------------- *)
\* A path is a sequence of steps <<kindOfParent, key>>; AllPaths gives every
\* <<path, value>> pair of the structure, root included (path <<>>).
RECURSIVE PathsFrom(_, _, _)
PathsFrom(h, v, prefix) ==
  {<<prefix, v>>} \cup
  (IF ~IsRef(v) THEN {}
   ELSE LET o == h[-v] IN
        UNION {PathsFrom(h, o.items[j].val,
                         Append(prefix, <<o.k, IF o.k \in {"list", "tuple", "ntuple"} THEN j - 1
                                                ELSE o.items[j].key>>))
               : j \in 1..Len(o.items)})
AllPaths(h, root) == PathsFrom(h, -root, <<>>)
PathsTo(h, root, v) == {p[1] : p \in {q \in AllPaths(h, root) : q[2] = v}}

(* --------------------------- generation -------------------------------- *)
\* A kind descriptor: [k, fn, slots] (slots = number of parameter slots of the
\* callable, 0 for containers).
Values(h, nleaves) == (1..nleaves) \cup {-j : j \in 1..Len(h)}

\* strictly ascending key sequences of length n over 1..m
RECURSIVE AscSeqs(_, _, _)
AscSeqs(n, lo, m) ==
  IF n = 0 THEN {<<>>}
  ELSE UNION {{<<k>> \o s : s \in AscSeqs(n - 1, k + 1, m)} : k \in lo..m}

\* references a Buildable argument may hold: a TaggedValue passed as an argument is
\* expanded into (value, tags) by fiddle, so it never survives there
NotTagged(h, v) == ~(IsRef(v) /\ h[-v].k = "tagged")

NewObjectsT(h, kd, maxItems, nleaves, nkeys, tagChoices, unsetTagged) ==
  IF kd.k = "mleaf" THEN {Obj("mleaf", 0, <<>>)}
  ELSE IF kd.k = "tagged"
  THEN {Obj("tagged", 0, <<ItemT(1, v, t)>>) :
          \* (a TaggedValue is itself a Buildable: a TaggedValue given as its value is expanded)
          v \in {w \in Values(h, nleaves) : NotTagged(h, w)} \cup (IF unsetTagged THEN {0} ELSE {}),
          t \in (tagChoices \ {0}) \cup (IF tagChoices \ {0} = {} THEN {1} ELSE {})}
  ELSE
  UNION {
    LET keyseqs == IF IsBuildableKind(kd.k) THEN AscSeqs(n, 1, kd.slots)
                   ELSE IF kd.k = "dict" THEN AscSeqs(n, 1, nkeys)
                   ELSE {[j \in 1..n |-> j - 1]}
        vals == Values(h, nleaves) \cup (IF unsetTagged /\ IsBuildableKind(kd.k) THEN {0} ELSE {})
        tgs == IF IsBuildableKind(kd.k) THEN tagChoices ELSE {0}
    IN {Obj(kd.k, kd.fn, [j \in 1..n |-> ItemT(ks[j], vs[j], ts[j])])
          : ks \in keyseqs,
            vs \in {w \in [1..n -> vals] :
                      IsBuildableKind(kd.k) => \A j \in 1..n : NotTagged(h, w[j])},
            ts \in [1..n -> tgs]}
    : n \in (IF kd.k = "ntuple" THEN {kd.slots} ELSE 0..maxItems)}

NewObjects(h, kd, maxItems, nleaves, nkeys) ==
  NewObjectsT(h, kd, maxItems, nleaves, nkeys, {0}, FALSE)

\* objects (other than the youngest) nobody refers to yet
Orphans(h) ==
  {i \in 1..Len(h) - 1 :
     \A j \in i + 1..Len(h) : \A m \in 1..Len(h[j].items) : h[j].items[m].val # -i}
\* every orphan must still be adoptable by the objects that can be created
Adoptable(h, maxObjs, maxItems) ==
  Cardinality(Orphans(h)) <= (maxObjs - Len(h)) * maxItems
Complete(h) == Len(h) > 0 /\ Orphans(h) = {}
=============================================================================
