------------------------------ MODULE Trace_C14 ------------------------------
(***************************************************************************)
(* C->S for C14: (canonical heap, tag operation, observed outcome, observed *)
(* post-heap, observed result) is accepted iff it is what ApplyTagOp gives. *)
(***************************************************************************)
EXTENDS FdlTags, Json, IOUtils

Traces == JsonDeserialize(IOEnv.TRACE_FILE)
VARIABLE i

\* observed iteration multiset arrives as a sequence of <<value, count>>
IterMatches(obs, f) == obs = f      \* both are ascending sequences of <<value, count>>

Failed(t) ==
  LET r == ApplyTagOp(t.heap, 1, t.op) IN
  IF r.out # t.out THEN "outcome"
  ELSE IF t.post # Canon(r.h, 1) THEN "post-state"
  ELSE IF t.op.name = "iter" /\ ~IterMatches(t.iter, r.ret) THEN "iter-values"
  ELSE IF t.op.name \in {"list_tags", "list_tags_super"} /\ <<t.mask>> # r.ret THEN "list-tags"
  ELSE ""

TInit == i = 0
TNext == /\ i < Len(Traces)
         /\ i' = i + 1
         /\ LET t == Traces[i + 1]  f == Failed(t) IN
            PrintT(ToJson([tid |-> t.tid, ok |-> f = "", failed |-> f]))
=============================================================================
