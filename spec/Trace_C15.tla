------------------------------ MODULE Trace_C15 ------------------------------
(* C->S for C15: recorded select operations judged by ApplySelOp. *)
EXTENDS FdlSelect, Json, IOUtils

Traces == JsonDeserialize(IOEnv.TRACE_FILE)
VARIABLE i

MsMatches(obs, f) == obs = f        \* both are ascending sequences of <<value, count>>

Failed(t) ==
  LET r == ApplySelOp(t.heap, 1, t.op) IN
  IF r.out # t.out THEN "outcome"
  ELSE IF t.post # Canon(r.h, 1) THEN "post-state"
  ELSE IF t.op.name = "iter" /\ t.nodes # r.ret THEN "iter-nodes"
  ELSE IF t.op.name = "get" /\ ~MsMatches(t.vals, r.ret) THEN "get-values"
  ELSE ""

TInit == i = 0
TNext == /\ i < Len(Traces)
         /\ i' = i + 1
         /\ LET t == Traces[i + 1]  f == Failed(t) IN
            PrintT(ToJson([tid |-> t.tid, ok |-> f = "", failed |-> f]))
=============================================================================
