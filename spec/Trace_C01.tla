------------------------------ MODULE Trace_C01 ------------------------------
(***************************************************************************)
(* C->S for C01: each record is (signature, projected store state, what    *)
(* fdl.build did).  The record is accepted iff the observation equals      *)
(* BuildExpect of the specification.  One record per step; the verdict is  *)
(* printed as one JSON line per record.                                    *)
(***************************************************************************)
EXTENDS FdlCall, Json, IOUtils

Traces == JsonDeserialize(IOEnv.TRACE_FILE)
VARIABLE i

SigOf(t) == [j \in 1..Len(t.sig) |-> [kind |-> t.sig[j].k, dflt |-> t.sig[j].d]]
VerdictOf(t) ==
  LET e == BuildExpect(SigOf(t), t.S) IN
  [tid |-> t.tid,
   ok |-> /\ WellFormed(SigOf(t), t.S)
          /\ e.out = t.out
          /\ (e.out = "ok" => e.loc = t.loc),
   expected |-> e]

TInit == i = 0
TNext == /\ i < Len(Traces)
         /\ i' = i + 1
         /\ PrintT(ToJson(VerdictOf(Traces[i + 1])))
=============================================================================
