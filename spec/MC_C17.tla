------------------------------- MODULE MC_C17 -------------------------------
(***************************************************************************)
(* C17 (level A, FdlFrame): read-only and copy-returning APIs never modify *)
(* their input.  One action per entry point, all with the same clause:     *)
(* the configuration (callables, arguments, tags, sharing) is unchanged.   *)
(* The specification is trivial by design; its job is to supply every      *)
(* configuration shape in the bound and to be the acceptance criterion for *)
(* recorded (api, pre, post) events (Trace_C17).                           *)
(***************************************************************************)
EXTENDS FdlGen, Json

CONSTANT EmitOn
VARIABLES phase, last

Apis == {"build", "repr", "eq", "copy", "deepcopy", "cast", "copy_with", "deepcopy_with",
         "materialize_tags", "clear_argument_history", "print", "render", "trim", "transform",
         "dump_json", "build_diff", "validate", "codegen", "select", "iterate"}

Init == GenInit /\ phase = "gen" /\ last = ""
GenStep == phase = "gen" /\ NewObj /\ UNCHANGED <<phase, last>>
Freeze == phase = "gen" /\ IsComplete /\ phase' = "frozen" /\ UNCHANGED <<heap, last>>
CallApi(a) == phase = "frozen" /\ last' = a /\ UNCHANGED <<heap, phase>>
Next == GenStep \/ Freeze \/ \E a \in Apis : CallApi(a)

Prune == phase = "gen" => GenPrune
FrameOK == [][phase = "frozen" => heap' = heap]_<<heap, phase, last>>
FrameInv == TRUE
Emit == (EmitOn /\ phase = "gen" /\ IsComplete /\ GenPrune) =>
          PrintT(ToJson([heap |-> Canon(heap, Root)]))
=============================================================================
