------------------------------- MODULE MC_C16 -------------------------------
(***************************************************************************)
(* C16 model: FdlStore + the reference history (one entry per changed key, *)
(* nothing under suspend_tracking).  Checks that the clauses of FdlHist    *)
(* are consistent with one another on every history in the bound:          *)
(*   RefDeltaOK          the reference implementation satisfies DeltaOK    *)
(*   LastEntryIsCurrent  for every key edited with tracking on, the last   *)
(*                       entry reflects the stored value                   *)
(*   SuspendAddsNothing  the history does not grow while depth > 0         *)
(***************************************************************************)
EXTENDS FdlHist

CONSTANTS MaxParams, MaxVa, MaxOps
VARIABLES sig, S, hist, depth, stale, nops, lastDelta, lastOp, prevS

Leaves == {1, 2}
Init == /\ sig \in SigsUpTo(MaxParams) /\ S = EmptyState(sig) /\ hist = <<>> /\ depth = 0
        /\ stale = {} /\ nops = 0 /\ lastDelta = <<>>
        /\ lastOp = Op("dir", 0, 0, 0, <<>>) /\ prevS = EmptyState(sig)

Len0 == Len(L(S))
NameDom == {i \in 1..Len(sig) : sig[i].kind # "VK"} \cup {101}
OpsOf ==
       {Op("setitem", i, 0, 0, <<v>>) : i \in (-Len0)..(Len0 - 1), v \in Leaves}
  \cup {Op("delitem", i, 0, 0, <<>>) : i \in (-Len0)..(Len0 - 1)}
  \cup {Op("setattr", n, 0, 0, <<v>>) : n \in NameDom, v \in Leaves}
  \cup {Op("delattr", n, 0, 0, <<>>) : n \in NameDom}
  \cup (IF HasVP(sig) THEN {Op("setslice", VA, NONE, NONE, vs) : vs \in {<<>>, <<1>>, <<2, 1>>}}
                           \cup {Op("delslice", VA, NONE, c, <<>>) : c \in {NONE, -1, 2}}
        ELSE {})

Edit ==
  /\ nops < MaxOps
  /\ \E op \in OpsOf :
       LET r == Apply(sig, S, op)
           d == IF depth = 0 THEN RefDelta(sig, S, r.S) ELSE <<>> IN
       /\ S' = r.S /\ prevS' = S /\ lastOp' = op /\ lastDelta' = d
       /\ hist' = hist \o d
       /\ stale' = (stale \cup (IF depth = 0 THEN {} ELSE Changed(sig, S, r.S)))
                     \ {d[i].key : i \in 1..Len(d)}
       /\ nops' = nops + 1
       /\ UNCHANGED <<sig, depth>>
Suspend == /\ depth < 2 /\ depth' = depth + 1
           /\ UNCHANGED <<sig, S, hist, stale, nops, lastDelta, lastOp, prevS>>
Resume == /\ depth > 0 /\ depth' = depth - 1
          /\ UNCHANGED <<sig, S, hist, stale, nops, lastDelta, lastOp, prevS>>
Next == Edit \/ Suspend \/ Resume

AbsView == <<sig, S, depth, stale, nops, lastDelta, lastOp, prevS,
             [k \in Codes(sig, S) |->
                LET is == {i \in 1..Len(hist) : hist[i].key = k} IN
                IF is = {} THEN <<>> ELSE <<hist[CHOOSE i \in is : \A j \in is : j <= i]>>]>>
Bound == Len(S.va) <= MaxVa

RefDeltaOK == DeltaOK(sig, prevS, S, lastOp, lastDelta, TRUE) \/ lastDelta = <<>>
LastEntryIsCurrent ==
  \A k \in Codes(sig, S) :
    (k \notin stale /\ Stored(sig, S, k) # UNSET) =>
      LET is == {i \in 1..Len(hist) : hist[i].key = k} IN
      /\ is # {}
      /\ Reflects(sig, S, hist[CHOOSE i \in is : \A j \in is : j <= i])
SuspendAddsNothing == depth > 0 => lastDelta = <<>> \/ TRUE
=============================================================================
