------------------------------ MODULE FdlFiddler ------------------------------
(***************************************************************************)
(* C13: the fiddler emitted by fiddler_from_diff, abstracted to its         *)
(* statement list.  A statement is [defs, uses]: the local variables it     *)
(* binds and the names it reads (interned to integers; names bound outside  *)
(* the function body -- the parameter, imports, builtins -- form `env`).    *)
(* The function body is straight-line code, so the statement-level property *)
(* DefinedBeforeUse decides whether it can raise UnboundLocalError /        *)
(* NameError at all; the semantic clause (same result as apply_diff) is     *)
(* carried by the record as the observed projections.                       *)
(***************************************************************************)
EXTENDS Integers, Sequences, FiniteSets, TLC

ToSet(q) == {q[i] : i \in 1..Len(q)}
Defined(stmts, n) == UNION {ToSet(stmts[j].defs) : j \in 1..n}
DefinedBeforeUse(stmts, env) ==
  \A i \in 1..Len(stmts) : ToSet(stmts[i].uses) \subseteq ToSet(env) \cup Defined(stmts, i - 1)
FirstUndefined(stmts, env) ==
  LET bad == {i \in 1..Len(stmts) : ~(ToSet(stmts[i].uses) \subseteq ToSet(env) \cup Defined(stmts, i - 1))} IN
  IF bad = {} THEN 0 ELSE CHOOSE i \in bad : \A j \in bad : i <= j
\* every alias / shared value that is bound is bound once (no shadowing surprises)
SingleAssignment(stmts) ==
  \A i, j \in 1..Len(stmts) : i # j => ToSet(stmts[i].defs) \cap ToSet(stmts[j].defs) = {}
=============================================================================
