------------------------------ MODULE Trace_C06 ------------------------------
(***************************************************************************)
(* C->S for C06: a record holds three canonical configurations x, y, z and *)
(* the verdicts the real == gave for (x,y), (y,z), (x,z) ("T", "F" or      *)
(* "raise:...").  Accepted iff no comparison raised, each verdict equals   *)
(* Equiv, and the three verdicts are transitively consistent.              *)
(***************************************************************************)
EXTENDS FdlEq, Json, IOUtils

Traces == JsonDeserialize(IOEnv.TRACE_FILE)
VARIABLE i

B(s) == s = "T"
Failed(t) ==
  IF ~(t.xy \in {"T", "F"} /\ t.yz \in {"T", "F"} /\ t.xz \in {"T", "F"}) THEN "raises"
  ELSE IF B(t.xy) # Equiv(t.x, 1, t.y, 1) THEN "verdict-xy"
  ELSE IF B(t.yz) # Equiv(t.y, 1, t.z, 1) THEN "verdict-yz"
  ELSE IF B(t.xz) # Equiv(t.x, 1, t.z, 1) THEN "verdict-xz"
  ELSE IF B(t.xy) /\ B(t.yz) /\ ~B(t.xz) THEN "transitivity"
  ELSE ""

TInit == i = 0
TNext == /\ i < Len(Traces)
         /\ i' = i + 1
         /\ LET t == Traces[i + 1]  f == Failed(t) IN
            PrintT(ToJson([tid |-> t.tid, ok |-> f = "", failed |-> f]))
=============================================================================
