------------------------------- MODULE MC_C19 -------------------------------
(* FdlThreads over every assignment of programs to N threads (chosen in Init). *)
EXTENDS FdlThreads
AllProgs == {"build", "nested", "fail", "edit", "sig", "copy"}
=============================================================================
