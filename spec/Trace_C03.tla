------------------------------ MODULE Trace_C03 ------------------------------
(***************************************************************************)
(* Batched trace validation for FdlStore: every recorded history of the    *)
(* real library must be a behaviour of the level-A store.  One initial     *)
(* state per trace; progress is kept in TLC registers (workers = 1) and    *)
(* printed by the POSTCONDITION, one JSON line per trace.                  *)
(***************************************************************************)
EXTENDS FdlStore, Json, IOUtils

Traces == JsonDeserialize(IOEnv.TRACE_FILE)

VARIABLES tid, l, S

SigOf(t) == [i \in 1..Len(Traces[t].sig) |->
               [kind |-> Traces[t].sig[i].k, dflt |-> Traces[t].sig[i].d]]
Events(t) == Traces[t].events
IsRead(op) == op.name \in {"getitem", "getslice", "getattr", "oargs", "dir"}

\* Is the observed event `ev`, taken in state s, a step of the specification?
Accepts(sg, s, ev) ==
  LET r == Apply(sg, s, ev.op) IN
  /\ ev.stray = 0
  /\ (r.out = "either" \/ r.out = ev.out)
  /\ ev.post = (IF ev.out = "ok" THEN r.S ELSE s)
  /\ (ev.out = "ok" /\ IsRead(ev.op) => ev.ret = r.ret)

TInit == \E t \in 1..Len(Traces) : tid = t /\ l = 0 /\ S = Traces[t].init

TNext ==
  /\ l < Len(Events(tid))
  /\ Accepts(SigOf(tid), S, Events(tid)[l + 1])
  /\ S' = Events(tid)[l + 1].post
  /\ l' = l + 1
  /\ tid' = tid

ASSUME \A t \in 1..Len(Traces) : TLCSet(t, 0)
TProgress == TLCSet(tid, IF TLCGet(tid) < l THEN l ELSE TLCGet(tid))

Before(t, m) == IF m = 0 THEN Traces[t].init ELSE Events(t)[m].post
TReport ==
  \A t \in 1..Len(Traces) :
    LET m == TLCGet(t) IN
    IF m = Len(Events(t))
    THEN PrintT(ToJson([tid |-> Traces[t].tid, matched |-> m, expected |-> "",
                        expected_post |-> Before(t, m)]))
    ELSE LET r == Apply(SigOf(t), Before(t, m), Events(t)[m + 1].op) IN
         PrintT(ToJson([tid |-> Traces[t].tid, matched |-> m, expected |-> r.out,
                        expected_post |-> r.S]))
=============================================================================
