------------------------------- MODULE MC_C09D -------------------------------
(* Arbitrary documents within a bound x every status assignment of three symbols. *)
EXTENDS FdlSerial, Json

CONSTANTS NObjs, EmitOn
VARIABLE doc, status

Syms == 1..3
NodeChoices(n) ==     \* the node stored under object name n may only list lower names (no cycles)
  {Leaf} \cup {Pyref(s) : s \in Syms}
  \cup {ListOf(ns) : ns \in UNION {[1..k -> 1..(n - 1)] : k \in 0..2}}

Init ==
  /\ status \in [Syms -> {"approved", "forbidden", "tainted", "missing"}]
  /\ \E objs \in {f \in [1..NObjs -> UNION {NodeChoices(n) : n \in 1..NObjs}] :
                    \A n \in 1..NObjs : f[n] \in NodeChoices(n)} :
       doc = [root |-> Ref(NObjs), objects |-> objs]
Next == UNCHANGED <<doc, status>>

\* never import what allows_import refuses; success iff everything reached is approved
PolicySound ==
  /\ \A s \in MayImport(doc, status) : status[s] # "forbidden"
  /\ (Outcome(doc, status) = "ok" <=> \A i \in 1..Len(Walk(doc)) : status[Walk(doc)[i]] = "approved")

Emit == EmitOn => PrintT(ToJson([objects |-> doc.objects, status |-> status,
                                 walk |-> Walk(doc), out |-> Outcome(doc, status),
                                 may |-> MayImport(doc, status)]))
=============================================================================
