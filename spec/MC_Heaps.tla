------------------------------- MODULE MC_Heaps -------------------------------
(* Plain generation of every complete configuration heap in the bound (FdlGen); one JSON line each.
   Used by checks whose specification judges recorded observations of these heaps. *)
EXTENDS FdlGen, Json
CONSTANT EmitOn
Init == GenInit
Next == NewObj
Emit == (EmitOn /\ IsComplete /\ GenPrune) => PrintT(ToJson([heap |-> Canon(heap, Root)]))
=============================================================================
