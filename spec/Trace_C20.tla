------------------------------ MODULE Trace_C20 ------------------------------
(***************************************************************************)
(* C20 judge: a record is (transformation, pre heap, outcome, post heap,   *)
(* post of a second application, real verdict of post == pre, real         *)
(* serializability of pre and post, real built graphs).  Every clause of   *)
(* FdlTransforms that applies to the transformation must hold.             *)
(***************************************************************************)
EXTENDS FdlTransforms, Json, IOUtils

Traces == JsonDeserialize(IOEnv.TRACE_FILE)
VARIABLE i

KeepsEqual(n) == n \in {"materialize_defaults", "with_defaults_trimmed", "with_defaults_trimmed_deep"}

Failed(t) ==
  IF t.out # "ok" THEN "raises"
  ELSE IF t.postroot = 0 THEN
         \* the transformation returned a leaf (e.g. an unconfigured Partial became its callable)
         (IF Meaning(t.pre, 1) = <<<<>>, t.postleaf>> THEN "" ELSE "meaning-leaf")
  ELSE IF ~SameMeaning(t.pre, 1, t.post, 1) THEN "meaning"
  ELSE IF t.built_equal = "F" THEN "real-built-graphs-differ"
  ELSE IF KeepsEqual(t.name) /\ ~Equiv(t.pre, 1, t.post, 1) THEN "equiv"
  ELSE IF KeepsEqual(t.name) /\ t.eq_real # "T" THEN "real-eq"
  ELSE IF t.name = "materialize_defaults" /\ ~AllExplicit(t.post, 1) THEN "not-all-explicit"
  ELSE IF t.name = "materialize_defaults" /\ t.post2 # t.post THEN "not-idempotent"
  ELSE IF t.ser_pre = "T" /\ t.ser_post # "T" THEN "serializability-lost"
  ELSE ""

TInit == i = 0
TNext == /\ i < Len(Traces)
         /\ i' = i + 1
         /\ LET t == Traces[i + 1]  f == Failed(t) IN
            PrintT(ToJson([tid |-> t.tid, ok |-> f = "", failed |-> f]))
=============================================================================
