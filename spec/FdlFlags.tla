------------------------------- MODULE FdlFlags -------------------------------
(***************************************************************************)
(* C18 (level A), three parts.                                             *)
(*                                                                         *)
(* (1) Flattened printers.  FlatLeaves(h, root): the printers list exactly *)
(*     the maximal Buildable-free values below a Buildable, each under     *)
(*     every path that reaches it.  Override(h, root, p, v): writing       *)
(*     path=value back changes exactly the item the path ends at.          *)
(* (2) Path tokens.  A path element is printed as  .name | [int] | ['str'] *)
(*     and parsed back; Parse(Print(p)) is p with Index and integer Key    *)
(*     conflated (both address position / key n).                          *)
(* (3) The flag object: directives are queued by parse() and consumed in   *)
(*     command-line order by reading .value; the value is the left fold of *)
(*     the consumed directives.                                            *)
(***************************************************************************)
EXTENDS FdlPaths

(* ------------------------------- (1) ----------------------------------- *)
HasB(h, v) == IsRef(v) /\ \E o \in Reach(h, -v) : IsBuildableKind(h[o].k) \/ h[o].k = "tagged"
Prefix(p) == SubSeq(p, 1, Len(p) - 1)
FlatLeaves(h, root) ==
  {pr \in AllPaths(h, root) :
     /\ pr[1] # <<>>
     /\ ~HasB(h, pr[2])
     /\ HasB(h, Follow(h, -root, Prefix(pr[1])))}

ThroughTuple(p) == \E i \in 1..Len(p) : p[i][1] \in {"tuple", "ntuple"}

\* the object and item index a non-empty path ends at
ParentOf(h, root, p) == -Follow(h, -root, Prefix(p))
ItemAt(h, o, st) ==
  CHOOSE j \in 1..Len(h[o].items) :
    (IF h[o].k \in {"list", "tuple", "ntuple"} THEN j - 1 ELSE h[o].items[j].key) = st[2]
Override(h, root, p, v) ==
  LET o == ParentOf(h, root, p)  j == ItemAt(h, o, p[Len(p)]) IN
  [h EXCEPT ![o].items[j] = ItemT(h[o].items[j].key, v, h[o].items[j].tg)]

(* ------------------------------- (2) ----------------------------------- *)
\* element: <<"attr", id>> | <<"index", n>> | <<"keystr", id>> | <<"keyint", n>>
PrintEl(e) == CASE e[1] = "attr" -> <<<<"dot">>, <<"ident", e[2]>>>>
                [] e[1] \in {"index", "keyint"} -> <<<<"lb">>, <<"int", e[2]>>, <<"rb">>>>
                [] OTHER -> <<<<"lb">>, <<"str", e[2]>>, <<"rb">>>>
RECURSIVE PrintPath(_)
PrintPath(p) == IF p = <<>> THEN <<>> ELSE PrintEl(Head(p)) \o PrintPath(Tail(p))
RECURSIVE ParseTokens(_)
ParseTokens(ts) ==     \* <<ok, path>>
  IF ts = <<>> THEN <<TRUE, <<>>>>
  ELSE IF ts[1] = <<"dot">> /\ Len(ts) >= 2 /\ ts[2][1] = "ident"
       THEN LET r == ParseTokens(SubSeq(ts, 3, Len(ts))) IN <<r[1], <<<<"attr", ts[2][2]>>>> \o r[2]>>
  ELSE IF ts[1] = <<"lb">> /\ Len(ts) >= 3 /\ ts[3] = <<"rb">> /\ ts[2][1] \in {"int", "str"}
       THEN LET r == ParseTokens(SubSeq(ts, 4, Len(ts)))
                e == IF ts[2][1] = "int" THEN <<"keyint", ts[2][2]>> ELSE <<"keystr", ts[2][2]>> IN
            <<r[1], <<e>> \o r[2]>>
  ELSE <<FALSE, <<>>>>
Conflate(p) == [i \in 1..Len(p) |-> IF p[i][1] = "index" THEN <<"keyint", p[i][2]>> ELSE p[i]]
RoundTrips(p) == ParseTokens(PrintPath(p)) = <<TRUE, Conflate(p)>>

(* ------------------------------- (3) ----------------------------------- *)
\* a configuration is abstracted to <<a, b>>; directives:
\*   "base1" config:base1 -> <<1, 10>>     "base2" config:base2(7) -> <<7, 20>>
\*   "cstr"  config_str:<serialized <<3, 30>>>
\*   "set5"  set:a=5      "double" fiddler: a := 2a      "addab" fiddler: b := b + a
IsBase(d) == d \in {"base1", "base2", "cstr"}
ApplyDirective(v, d) ==
  CASE d = "base1" -> <<1, 10>> [] d = "base2" -> <<7, 20>> [] d = "cstr" -> <<3, 30>>
    [] d = "set5" -> <<5, v[2]>> [] d = "double" -> <<2 * v[1], v[2]>>
    [] d = "addab" -> <<v[1], v[2] + v[1]>>
\* consuming a queue from state [val, started, err]
RECURSIVE Consume(_, _)
Consume(st, q) ==
  IF q = <<>> \/ st.err THEN st
  ELSE LET d == Head(q) IN
       IF ~st.started /\ ~IsBase(d) THEN [st EXCEPT !.err = TRUE]
       ELSE IF st.started /\ IsBase(d) THEN [st EXCEPT !.err = TRUE]
       ELSE Consume([val |-> ApplyDirective(st.val, d), started |-> TRUE, err |-> FALSE], Tail(q))
=============================================================================
