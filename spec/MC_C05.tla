------------------------------- MODULE MC_C05 -------------------------------
(***************************************************************************)
(* C05 (level A): a failing callable surfaces faithfully and leaves no     *)
(* residue.  The build machine of C02 with faults:                         *)
(*                                                                         *)
(*   fail \subseteq Buildables : the nodes whose callable raises now       *)
(*   nest \subseteq Buildables : nodes whose callable itself calls         *)
(*                               fdl.build (must be rejected => it raises) *)
(*   inBuild                   : the per-thread nested-build guard         *)
(*   builds                    : number of fdl.build calls finished so far *)
(*                                                                         *)
(* fdl.build is: Enter; Call* ; (Finish | Raised ; Escape).  After a failed *)
(* build the fault may be repaired (Repair) and fdl.build is issued again: *)
(* it must run as in C02.                                                  *)
(***************************************************************************)
EXTENDS FdlHeap, Json

CONSTANTS MaxObjs, MaxItems, NLeaves, NKeys, NSlots, KindSet, MaxBuilds, WithBuild, EmitOn

VARIABLES heap, phase, called, fail, nest, inBuild, builds, escaped

vars == <<heap, phase, called, fail, nest, inBuild, builds, escaped>>

KindPool ==
     (IF "config" \in KindSet THEN {[k |-> "config", fn |-> 1, slots |-> NSlots]} ELSE {})
  \cup (IF "list" \in KindSet THEN {[k |-> "list", fn |-> 0, slots |-> 0]} ELSE {})
  \cup (IF "tuple" \in KindSet THEN {[k |-> "tuple", fn |-> 0, slots |-> 0]} ELSE {})
  \cup (IF "dict" \in KindSet THEN {[k |-> "dict", fn |-> 0, slots |-> 0]} ELSE {})

Root == Len(heap)
NoEsc == [node |-> 0, path |-> <<>>]

Init == /\ heap = <<>> /\ phase = "gen" /\ called = <<>> /\ fail = {} /\ nest = {}
        /\ inBuild = FALSE /\ builds = 0 /\ escaped = NoEsc

NewObj ==
  /\ phase = "gen"
  /\ Len(heap) < MaxObjs
  /\ \E kd \in KindPool : \E o \in NewObjects(heap, kd, MaxItems, NLeaves, NKeys) :
       heap' = Append(heap, o)
  /\ UNCHANGED <<phase, called, fail, nest, inBuild, builds, escaped>>

\* choose the faults, then the configuration is frozen
Freeze ==
  /\ WithBuild
  /\ phase = "gen"
  /\ Complete(heap)
  /\ \E f \in SUBSET ReachableBuildables(heap, Root) :
     \E n \in SUBSET ReachableBuildables(heap, Root) :
       /\ Cardinality(f) <= 1 /\ Cardinality(n) <= 1 /\ f \cap n = {}
       /\ fail' = f /\ nest' = n
  /\ phase' = "idle"
  /\ UNCHANGED <<heap, called, inBuild, builds, escaped>>

Enter ==
  /\ phase = "idle"
  /\ builds < MaxBuilds
  /\ ~inBuild                      \* guard is free between builds (FlagReset)
  /\ inBuild' = TRUE
  /\ phase' = "build"
  /\ called' = <<>>
  /\ escaped' = NoEsc
  /\ UNCHANGED <<heap, fail, nest, builds>>

CallEnabled(o) ==
  /\ o \in ReachableBuildables(heap, Root)
  /\ o \notin Range(called)
  /\ BuildableDeps(heap, o) \subseteq Range(called)

\* the callable of o runs; a nested fdl.build inside it finds inBuild = TRUE and
\* is rejected, which makes o's callable raise.  (A callable may also swallow the
\* rejection and try again: a rejected attempt changes nothing -- in particular
\* not the guard -- so every further attempt in the same build is rejected too;
\* that is FlagReset evaluated in the states between the attempts.)
Call(o) ==
  /\ phase = "build"
  /\ CallEnabled(o)
  /\ called' = Append(called, o)
  /\ phase' = IF o \in fail \/ (o \in nest /\ inBuild) THEN "raised" ELSE "build"
  /\ UNCHANGED <<heap, fail, nest, inBuild, builds, escaped>>

Finish ==
  /\ phase = "build"
  /\ ReachableBuildables(heap, Root) \subseteq Range(called)
  /\ phase' = "idle" /\ inBuild' = FALSE /\ builds' = builds + 1
  /\ UNCHANGED <<heap, called, fail, nest, escaped>>

\* the exception leaves fdl.build: it names some path to the failing node
Escape ==
  /\ phase = "raised"
  /\ LET bad == called[Len(called)] IN
     \E p \in PathsTo(heap, Root, -bad) : escaped' = [node |-> bad, path |-> p]
  /\ phase' = "idle" /\ inBuild' = FALSE /\ builds' = builds + 1
  /\ UNCHANGED <<heap, called, fail, nest>>

Repair ==
  /\ phase = "idle" /\ builds > 0 /\ (fail # {} \/ nest # {})
  /\ fail' = {} /\ nest' = {}
  /\ UNCHANGED <<heap, phase, called, inBuild, builds, escaped>>

Next == NewObj \/ Freeze \/ Enter \/ (\E o \in 1..Len(heap) : Call(o)) \/ Finish \/ Escape \/ Repair

Prune ==
  /\ Adoptable(heap, MaxObjs, MaxItems)
  /\ Cardinality({i \in 1..Len(heap) : heap[i].k = "tuple" /\ heap[i].items = <<>>}) <= 1

(* --------------------------- checked formulas -------------------------- *)
\* no callable is invoked after the failing one
NoCallAfterFailure ==
  [][phase = "raised" => called' = called]_vars
\* the configuration is never modified by building
ConfigUnchanged ==
  [][phase # "gen" => heap' = heap]_vars
\* the guard is held exactly while a build is running, on every exit path
FlagReset == inBuild <=> phase \in {"build", "raised"}
\* the failing node is the last one invoked, each node at most once, deps first
FailureIsLast ==
  phase = "raised" =>
    /\ called[Len(called)] \in fail \cup nest
    /\ \A i \in 1..Len(called) - 1 : called[i] \notin fail \cup nest
OnceAndDepsFirst ==
  /\ Len(called) = Cardinality(Range(called))
  /\ \A i \in 1..Len(called) :
       BuildableDeps(heap, called[i]) \subseteq {called[j] : j \in 1..i - 1}
\* the path named by the escaping exception really leads to the failing node
PathLeadsToFailing ==
  escaped.node # 0 => <<escaped.path, -escaped.node>> \in AllPaths(heap, Root)
\* after the faults are repaired the next build completes (C02 behaviour)
NextBuildNormal ==
  (phase = "build" /\ fail = {} /\ nest = {}) =>
    \/ ReachableBuildables(heap, Root) \subseteq Range(called)
    \/ \E o \in 1..Len(heap) : CallEnabled(o)

EmitHeap ==
  (EmitOn /\ phase = "gen" /\ Complete(heap) /\ Prune) =>
    LET c == Canon(heap, Root) IN
    PrintT(ToJson([heap |-> c,
                   buildables |-> [o \in 1..Len(c) |-> IsBuildableKind(c[o].k)],
                   deps |-> [o \in 1..Len(c) |->
                               IF IsBuildableKind(c[o].k) THEN SetToSeq(BuildableDeps(c, o))
                               ELSE <<>>],
                   paths |-> [o \in 1..Len(c) |->
                                IF IsBuildableKind(c[o].k) THEN PathsTo(c, 1, -o) ELSE {}]]))
=============================================================================
