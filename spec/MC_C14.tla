------------------------------- MODULE MC_C14 -------------------------------
(***************************************************************************)
(* C14: every configuration with tags in the bound x every tag operation.  *)
(* The operations are applied to the canonical heap; one JSON line per     *)
(* (heap, operation) with the expected outcome, post-heap and result.      *)
(* Model-level law (SetTaggedLaw): the pointwise statement of the property *)
(* holds for the post-state of every assigning operation.                  *)
(***************************************************************************)
EXTENDS FdlGen, FdlTags, Json

CONSTANT EmitOn

Init == GenInit
Next == NewObj

C == Canon(heap, Root)
TOp(n, t, v, o, k) == [name |-> n, tag |-> t, val |-> v, obj |-> o, key |-> k]

Buildables(c) == {o \in 1..Len(c) : IsBuildableKind(c[o].k)}
OpsOf(c) ==
       {TOp(n, t, v, 0, 0) : n \in {"set_tagged", "replace", "replace_shared"},
                              t \in {1, 2, 4}, v \in {8, -1}}
  \cup {TOp("iter", t, 0, 0, 0) : t \in {1, 2, 4}}
  \cup {TOp("list_tags", 0, 0, 0, 0), TOp("list_tags_super", 0, 0, 0, 0)}
  \cup {TOp(n, t, 0, o, k) : n \in {"add_tag", "remove_tag", "set_tags"}, t \in {1, 2, 4},
                              o \in Buildables(c), k \in 1..NSlots}
  \cup {TOp("set_tags", 6, 0, o, k) : o \in Buildables(c), k \in 1..NSlots}
  \cup {TOp("clear_tags", 0, 0, o, k) : o \in Buildables(c), k \in 1..NSlots}

\* the statement, pointwise, on the post-state of an assigning operation
AssignLaw(c, op, r) ==
  op.name \in {"set_tagged", "replace", "replace_shared"} =>
    \A o \in Reach(r.h, 1) :
      (o <= Len(c) /\ (IsBuildableKind(r.h[o].k) \/ r.h[o].k = "tagged")) =>
        /\ Len(r.h[o].items) = Len(c[o].items)
        /\ \A j \in 1..Len(c[o].items) :
             /\ r.h[o].items[j].tg = c[o].items[j].tg                   \* no tag changed
             /\ r.h[o].items[j].key = c[o].items[j].key
             /\ (Matches(c[o].items[j].tg, op.tag) =>
                   IF op.val > 0 THEN r.h[o].items[j].val = op.val
                   ELSE /\ IsRef(r.h[o].items[j].val)
                        /\ -r.h[o].items[j].val > Len(c)                 \* the new Buildable
                        /\ r.h[-r.h[o].items[j].val] = FreshConfig)
             /\ (~Matches(c[o].items[j].tg, op.tag) =>
                   r.h[o].items[j].val = c[o].items[j].val)              \* frame
\* tag edits change exactly one tag set and no value
EditLaw(c, op, r) ==
  op.name \in {"add_tag", "remove_tag", "set_tags", "clear_tags"} =>
    \A o \in 1..Len(c) :
      IF o # op.obj THEN r.h[o] = c[o]
      ELSE \A j \in 1..Len(c[o].items) :
             c[o].items[j].key # op.key =>
               \E i \in 1..Len(r.h[o].items) : r.h[o].items[i] = c[o].items[j]

Laws ==
  (IsComplete /\ GenPrune) =>
    \A op \in OpsOf(C) :
      LET r == ApplyTagOp(C, 1, op) IN AssignLaw(C, op, r) /\ EditLaw(C, op, r)

Emit ==
  (EmitOn /\ IsComplete /\ GenPrune) =>
    \A op \in OpsOf(C) :
      LET r == ApplyTagOp(C, 1, op) IN
      PrintT(ToJson([heap |-> C, op |-> op, out |-> r.out, ret |-> r.ret,
                     post |-> Canon(r.h, 1)]))
=============================================================================
