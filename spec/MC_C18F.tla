------------------------------- MODULE MC_C18F -------------------------------
(***************************************************************************)
(* C18 part (3): the flag object.  parse(ds) appends directives to the     *)
(* queue; reading .value consumes the whole queue in order.  Invariant:    *)
(* the value seen by a read is the left fold of ALL directives parsed so   *)
(* far, in command-line order, however parses and reads interleave.        *)
(***************************************************************************)
EXTENDS FdlFlags, Json
CONSTANTS MaxDirectives, EmitOn
VARIABLES queue, st, all, hist

Directives == {"base1", "base2", "cstr", "set5", "double", "addab"}
St0 == [val |-> <<0, 0>>, started |-> FALSE, err |-> FALSE]
Init == queue = <<>> /\ st = St0 /\ all = <<>> /\ hist = <<>>

ParseArgs ==
  /\ ~st.err
  /\ \E n \in 1..2 : \E ds \in [1..n -> Directives] :
       /\ Len(all) + n <= MaxDirectives
       /\ queue' = queue \o ds /\ all' = all \o ds
       /\ hist' = Append(hist, [op |-> "parse", ds |-> ds, val |-> <<0, 0>>, err |-> FALSE])
       /\ UNCHANGED st
ReadValue ==
  /\ ~st.err
  /\ LET s2 == Consume(st, queue) IN
     /\ st' = s2 /\ queue' = <<>>
     /\ hist' = Append(hist, [op |-> "read", ds |-> <<>>, val |-> s2.val, err |-> s2.err])
     /\ (EmitOn => PrintT(ToJson([hist |-> hist'])))
  /\ UNCHANGED all
Next == ParseArgs \/ ReadValue
View == <<queue, st, all>>

\* applied strictly in command-line order: a read sees the fold of everything parsed so far
InOrder == (queue = <<>> /\ ~st.err) => st = Consume(St0, all)
Bound == Len(hist) <= 2 * MaxDirectives + 1
=============================================================================
