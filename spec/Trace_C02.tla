------------------------------ MODULE Trace_C02 ------------------------------
(***************************************************************************)
(* C->S for C02: a record is (canonical heap, outcome, invocation order by *)
(* canonical object id, projected result).  It is accepted iff the order   *)
(* is a behaviour of Call (every step enabled, nothing left to call) and   *)
(* the result equals the specification's built graph.                      *)
(***************************************************************************)
EXTENDS FdlBuild, Json, IOUtils

Traces == JsonDeserialize(IOEnv.TRACE_FILE)
VARIABLE i

CallEnabled(h, root, done, o) ==
  /\ o \in ReachableBuildables(h, root)
  /\ o \notin done
  /\ BuildableDeps(h, o) \subseteq done

Failed(t) ==
  LET h == t.heap
      bi == BuiltIndex(h, 1)
      \* the recorded order is in built numbering: translate to configuration numbering
      ord == [n \in 1..Len(t.order) |->
                IF \E c \in 1..Len(bi) : bi[c] = t.order[n] /\ t.order[n] # 0
                THEN CHOOSE c \in 1..Len(bi) : bi[c] = t.order[n] ELSE 0]
  IN
  IF BuildFails(h, 1) THEN (IF t.out = "ok" THEN "should-fail" ELSE "")
  ELSE IF t.out # "ok" THEN "outcome"
  ELSE IF \E n \in 1..Len(ord) :
            ~CallEnabled(h, 1, {ord[m] : m \in 1..n - 1}, ord[n]) THEN "call-not-enabled"
  ELSE IF ReachableBuildables(h, 1) # Range(ord) THEN "not-all-called"
  ELSE IF t.built # BuiltCanon(h, 1) THEN "result-graph"
  ELSE IF ~IsRef(BuiltRoot(h, 1)) /\ t.builtroot # BuiltRoot(h, 1) THEN "result-leaf"
  ELSE ""

TInit == i = 0
TNext == /\ i < Len(Traces)
         /\ i' = i + 1
         /\ LET t == Traces[i + 1]  f == Failed(t) IN
            PrintT(ToJson([tid |-> t.tid, ok |-> f = "", failed |-> f]))
=============================================================================
