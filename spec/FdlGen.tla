-------------------------------- MODULE FdlGen --------------------------------
(***************************************************************************)
(* The generation phase shared by the heap-based specifications: heaps are *)
(* created bottom-up by NewObj (the modelled constructors), one object per *)
(* step.  Property modules EXTEND this one and add their own observation   *)
(* actions / emission invariants on complete heaps.                        *)
(***************************************************************************)
EXTENDS FdlHeap

CONSTANTS MaxObjs, MaxItems, NLeaves, NKeys, NSlots, NFns,
          KindSet,       \* subset of {"config","partial","list","tuple","dict","ntuple"}
          TagChoices,    \* tag bitmasks an argument may carry, e.g. {0} or {0, 1, 2, 4}
          UnsetTagged    \* allow tagged arguments without a value

VARIABLE heap

KindPool ==
     (IF "config" \in KindSet THEN {[k |-> "config", fn |-> f, slots |-> NSlots] : f \in 1..NFns}
      ELSE {})
  \cup (IF "partial" \in KindSet THEN {[k |-> "partial", fn |-> 1, slots |-> NSlots]} ELSE {})
  \cup (IF "argfactory" \in KindSet THEN {[k |-> "argfactory", fn |-> 4, slots |-> NSlots]} ELSE {})
  \cup (IF "list" \in KindSet THEN {[k |-> "list", fn |-> 0, slots |-> 0]} ELSE {})
  \cup (IF "tuple" \in KindSet THEN {[k |-> "tuple", fn |-> 0, slots |-> 0]} ELSE {})
  \cup (IF "dict" \in KindSet THEN {[k |-> "dict", fn |-> 0, slots |-> 0]} ELSE {})
  \cup (IF "ntuple" \in KindSet THEN {[k |-> "ntuple", fn |-> 0, slots |-> 2]} ELSE {})
  \* an opaque mutable leaf object (e.g. a set): identity matters, nothing inside to traverse
  \cup (IF "mleaf" \in KindSet THEN {[k |-> "mleaf", fn |-> 0, slots |-> 0]} ELSE {})
  \cup (IF "tagged" \in KindSet THEN {[k |-> "tagged", fn |-> 0, slots |-> 1]} ELSE {})

Root == Len(heap)

GenInit == heap = <<>>

NewObj ==
  /\ Len(heap) < MaxObjs
  /\ \E kd \in KindPool :
       \E o \in NewObjectsT(heap, kd, MaxItems, NLeaves, NKeys, TagChoices, UnsetTagged) :
         \* a value-less item must carry a tag (otherwise it is simply absent)
         /\ \A j \in 1..Len(o.items) : o.items[j].val = 0 => o.items[j].tg # 0
         /\ heap' = Append(heap, o)

LeafOnly(o) == o.k \in {"tuple", "ntuple"} /\ \A j \in 1..Len(o.items) : ~IsRef(o.items[j].val)
RefCount(h, i) ==
  Cardinality({<<j, m>> \in (1..Len(h)) \X (1..MaxItems + 2) :
                 m <= Len(h[j].items) /\ h[j].items[m].val = -i})
\* internable tuples -- all items leaves or, recursively, internable tuples (daglish.is_internable) --
\* have value semantics in fiddle; CPython has one empty tuple.  Specifications that do not study
\* interning exclude their sharing (leaf-only named tuples too: the harness cannot tell two apart).
RECURSIVE InternableAt(_, _)
InternableAt(h, i) ==
  /\ h[i].k = "tuple"
  /\ \A j \in 1..Len(h[i].items) :
        ~IsRef(h[i].items[j].val) \/ InternableAt(h, -h[i].items[j].val)
NoSharedInternable ==
  /\ \A i \in 1..Len(heap) : (LeafOnly(heap[i]) \/ InternableAt(heap, i)) => RefCount(heap, i) <= 1
  /\ Cardinality({i \in 1..Len(heap) : heap[i].k = "tuple" /\ heap[i].items = <<>>}) <= 1

GenPrune == Adoptable(heap, MaxObjs, MaxItems) /\ NoSharedInternable
IsComplete == Complete(heap)
=============================================================================
