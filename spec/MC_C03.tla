------------------------------ MODULE MC_C03 ------------------------------
(***************************************************************************)
(* Exhaustive exploration of FdlStore (level A) with per-transition        *)
(* emission (S->C).  A behaviour is a straight-line fiddle program:        *)
(*   cfg = fdl.Config(f, *args, **kwargs); op1; op2; ...                   *)
(* The witness program `hist` is hidden from the fingerprint by the VIEW.  *)
(***************************************************************************)
EXTENDS FdlStore, Json

CONSTANTS MaxParams,   \* signatures with at most this many parameters
          MaxVa,       \* state constraint: Len(va) <= MaxVa
          MaxOps,      \* operations after the constructor
          SigMode,     \* 0 = all signatures, 1 = positional shapes (PO/PK/VP [+ one KO])
          KwMode,      \* constructor keyword sets: 0 = {none, all}, 1 = every subset
          Groups,      \* subset of {"item", "attr", "slice", "report"}
          SliceMode,   \* 1 = boundary start/stop set, 2 = full range, 3 = reduced boundary set
          EmitOn       \* print one JSON line per generated transition

VARIABLES sig, S, hist

Leaves == {1, 2, 3}
ValSeqs == IF SliceMode = 3 THEN {<<>>, <<3>>, <<2, 3>>}
           ELSE {<<>>, <<3>>, <<2, 3>>, <<1, 2, 3>>}

PositionalShape(s) ==
  /\ \A i \in 1..Len(s) : s[i].kind \in {"PO", "PK", "VP", "KO"}
  /\ Cardinality({i \in 1..Len(s) : s[i].kind = "KO"}) <= 1
Sigs == IF SigMode = 0 THEN SigsUpTo(MaxParams)
        ELSE {s \in SigsUpTo(MaxParams + 2) :
                PositionalShape(s) /\ NPos(s) <= MaxParams /\ Len(s) <= MaxParams + 2
                /\ (Len(s) > MaxParams => HasVP(s))}

(* The constructor: na positional arguments, kws = set of names passed by keyword. *)
ArgLeaf(i) == ((i - 1) % 3) + 1
KwLeaf(n)  == (n % 3) + 1
KwCands(s, na) ==
  {i \in 1..Len(s) : (s[i].kind = "PK" /\ i > na) \/ s[i].kind = "KO"}
    \cup (IF HasVK(s) THEN Extras ELSE {})
Constructed(s, na, kws) ==
  [pre |-> [i \in 1..NPos(s) |-> IF i <= na THEN ArgLeaf(i)
                                  ELSE IF i \in kws THEN KwLeaf(i) ELSE UNSET],
   va  |-> [j \in 1..(IF na > NPos(s) THEN na - NPos(s) ELSE 0) |-> ArgLeaf(NPos(s) + j)],
   ko  |-> [i \in 1..Len(s) |-> IF s[i].kind = "KO" /\ i \in kws THEN KwLeaf(i) ELSE UNSET],
   ex  |-> [j \in 1..Len(s) + 2 |->
              IF ExName(s, j) \in kws /\ (j > Len(s) \/ s[j].kind \in {"PO", "VP", "VK"})
              THEN KwLeaf(ExName(s, j)) ELSE UNSET]]
CtorOp(na, kws) == Op("construct", na, 0, 0, SetToSeq(kws))

Init == /\ sig \in Sigs
        /\ \E na \in 0..(NPos(sig) + (IF HasVP(sig) THEN MaxVa ELSE 0)) :
             \E kws \in (IF KwMode = 1 THEN SUBSET KwCands(sig, na)
                         ELSE {{}, KwCands(sig, na)}) :
               /\ S = Constructed(sig, na, kws)
               /\ hist = <<[op |-> CtorOp(na, kws), out |-> "ok",
                             S |-> Constructed(sig, na, kws)]>>

Len0 == Len(L(S))
IdxDom == (-(Len0 + 2))..(Len0 + 1) \cup (IF HasVP(sig) THEN {VA} ELSE {})
NameDom == {i \in 1..Len(sig) : sig[i].kind # "VK"} \cup Extras
SlDom ==
  LET va == IF HasVP(sig) THEN {VA} ELSE {} IN
  CASE SliceMode = 2 -> (-(Len0 + 1))..(Len0 + 1) \cup {NONE} \cup va
    [] SliceMode = 1 -> {NONE, 0, 1, NPos(sig), Len0 - 1, Len0, Len0 + 1,
                         -1, -Len0, -Len0 - 1} \cup va
    [] OTHER -> {NONE, 0, 1, NPos(sig), Len0, -1, -Len0 - 1} \cup va
StepDom == IF SliceMode = 3 THEN {NONE, 2, -1, -2, 0} ELSE {NONE, 1, 2, -1, -2, 0}

OpsOf ==
       (IF "item" \in Groups THEN
          {Op("getitem", i, 0, 0, <<>>) : i \in IdxDom}
          \cup {Op("delitem", i, 0, 0, <<>>) : i \in IdxDom}
          \cup {Op("setitem", i, 0, 0, <<v>>) : i \in IdxDom, v \in Leaves}
        ELSE {})
  \cup (IF "attr" \in Groups THEN
          {Op("getattr", n, 0, 0, <<>>) : n \in NameDom}
          \cup {Op("delattr", n, 0, 0, <<>>) : n \in NameDom}
          \cup {Op("setattr", n, 0, 0, <<v>>) : n \in NameDom, v \in Leaves}
        ELSE {})
  \cup (IF "report" \in Groups THEN
          {Op("oargs", f, 0, 0, <<>>) : f \in {9, 11, 13, 1, 8, 15}}
          \cup {Op("dir", 0, 0, 0, <<>>)}
        ELSE {})
  \cup (IF "slice" \in Groups THEN
          {Op("getslice", a, b, c, <<>>) : a \in SlDom, b \in SlDom, c \in StepDom}
          \cup {Op("delslice", a, b, c, <<>>) : a \in SlDom, b \in SlDom, c \in StepDom}
          \cup {Op("setslice", a, b, c, vs) :
                  a \in SlDom, b \in SlDom, c \in StepDom, vs \in ValSeqs}
        ELSE {})

SigCode(s) == [i \in 1..Len(s) |-> [k |-> s[i].kind, d |-> s[i].dflt]]

(* ---- model-level laws, asserted on every generated transition ---- *)
LawsFor(op, r) ==
  LET l == L(S)  l2 == L(r.S) IN
  /\ WellFormed(sig, r.S)
  /\ (r.out \in {"raise", "either"} => r.S = S)
  /\ (op.name \in {"getitem", "getslice", "getattr", "oargs", "dir"} => r.S = S)
  \* read-after-write and frame for single-cell writes
  /\ (op.name = "setitem" /\ r.out = "ok" =>
        /\ GetItem(sig, r.S, op.a).ret = op.vals
        /\ Len(l2) = Len(l)
        /\ Cardinality({j \in 1..Len(l) : l[j] # l2[j]}) <= 1
        /\ r.S.ko = S.ko /\ r.S.ex = S.ex)
  /\ (op.name = "setattr" /\ r.out = "ok" => GetAttr(sig, r.S, op.a).ret = op.vals)
  /\ (op.name = "delattr" /\ r.out = "ok" =>
        GetAttr(sig, r.S, op.a).ret \in {<<>>, <<Dflt(op.a)>>})
  \* deletions never touch the length of the fixed prefix and only shrink *args
  /\ (op.name \in {"delitem", "delslice"} =>
        Len(r.S.pre) = Len(S.pre) /\ Len(r.S.va) <= Len(S.va))
  \* a length-preserving slice assignment reads back
  /\ (op.name = "setslice" /\ r.out = "ok" /\ Len(l2) = Len(l)
      /\ Len(op.vals) = Len(GetSlice(sig, S, op.a, op.b, op.c).ret) =>
        GetSlice(sig, r.S, op.a, op.b, op.c).ret = op.vals)
  \* the positional view and ordered_arguments agree on what is set
  /\ (op.name = "oargs" /\ op.a = 9 =>
        Len(r.ret) = 3 * Cardinality({j \in 1..Len(l) : l[j] # UNSET})
                   + 3 * Cardinality({j \in 1..Len(sig) : S.ko[j] # UNSET})
                   + 3 * Cardinality({j \in 1..Len(S.ex) : S.ex[j] # UNSET}))

Next ==
  /\ Len(hist) <= MaxOps
  /\ \E op \in OpsOf :
       LET r == Apply(sig, S, op) IN
       /\ S' = r.S
       /\ sig' = sig
       /\ hist' = Append(hist, [op |-> op, out |-> r.out, S |-> r.S])
       /\ Assert(LawsFor(op, r), <<"LAW VIOLATED", sig, S, op>>)
       /\ (EmitOn => PrintT(ToJson([sig |-> SigCode(sig), pre |-> hist, op |-> op,
                                    out |-> r.out, ret |-> r.ret, post |-> r.S,
                                    view |-> View(sig, r.S),
                                    oa |-> OrderedArgs(sig, r.S, 9)])))

AbsView == <<sig, S>>
Bound == Len(S.va) <= MaxVa
TypeOK == WellFormed(sig, S)
=============================================================================
