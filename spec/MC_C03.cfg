CONSTANTS
  MaxParams = 3
  MaxVa = 2
  MaxOps = 1
  SigMode = 1
  KwMode = 0
  Groups = {"slice"}
  SliceMode = 3
  EmitOn = FALSE
INIT Init
NEXT Next
VIEW AbsView
CONSTRAINT Bound
INVARIANT TypeOK
CHECK_DEADLOCK FALSE
