------------------------------- MODULE FdlBuild -------------------------------
(***************************************************************************)
(* What fdl.build must produce for a heap (level A, shared by C01, C02,    *)
(* C06, C14, C20): every config becomes one instance node, every container *)
(* one container of the same kind, a stand-alone TaggedValue is replaced   *)
(* by (the built form of) its value; the same object gives the same        *)
(* result, distinct objects distinct results.  The build fails iff a       *)
(* reachable TaggedValue has no value.                                     *)
(***************************************************************************)
EXTENDS FdlHeap

BuiltKind(k) == IF k = "config" THEN "inst" ELSE k

RECURSIVE Res(_, _)
Res(h, v) ==    \* the value an argument / item holds after building
  IF IsRef(v) /\ h[-v].k = "tagged" /\ h[-v].items # <<>> /\ h[-v].items[1].val # 0
  THEN Res(h, h[-v].items[1].val) ELSE v

Built(h) ==
  [i \in 1..Len(h) |->
     Obj(BuiltKind(h[i].k), h[i].fn,
         \* an argument that carries a tag but no value is simply not passed
         LET its == SelectSeq(h[i].items, LAMBDA it : it.val # 0) IN
         [j \in 1..Len(its) |-> ItemT(its[j].key, Res(h, its[j].val), 0)])]

BuildFails(h, root) ==
  \* (a TaggedValue stripped of its tags has no items at all)
  \E o \in Reach(h, root) : h[o].k = "tagged" /\ (h[o].items = <<>> \/ h[o].items[1].val = 0)

BuiltRoot(h, root) == Res(h, -root)
\* canonical built graph; <<>> when the result is a leaf
BuiltCanon(h, root) ==
  LET r == BuiltRoot(h, root) IN
  IF IsRef(r) THEN Canon(Built(h), -r) ELSE <<>>

\* For every object of the canonical configuration heap, its number in the canonical
\* built graph (0 for a TaggedValue, which has no counterpart).
BuiltIndex(h, root) ==
  LET oc == Dfs(h, <<root>>, <<>>)
      r == BuiltRoot(h, root)
      ob == IF IsRef(r) THEN Dfs(Built(h), <<-r>>, <<>>) ELSE <<>>
  IN [i \in 1..Len(oc) |-> IF oc[i] \in Range(ob) THEN Pos(ob, oc[i]) ELSE 0]
=============================================================================
