------------------------------- MODULE MC_C11 -------------------------------
(***************************************************************************)
(* C11: TLC's search is at once the enumerator of all programs up to the   *)
(* instruction bound and the checker of the model theorem (BuildEqualsCall *)
(* at every finished program, NothingInvoked for programs without exempt   *)
(* calls).  Every finished program is printed with its predicted           *)
(* as_buildable() graph, predicted direct result and predicted invocations;*)
(* the harness decompiles it to Python and runs the real auto_config.      *)
(***************************************************************************)
EXTENDS FdlAutoConfig, Json

CONSTANTS Ops, Lits, Params, Fns, MaxArgs, Styles, MkKinds, Vias, TagMasks, AcKinds, CompNs,
          NVars, MaxLen, MaxStack, MaxHeap, ForceRetAt, EmitOn

VARIABLES prog, st, done
vars == <<prog, st, done>>

Shapes(m) ==   \* <<npos, kw>> for m arguments over three slots
  UNION {{<<np, kw>> : kw \in AscSeqs(m - np, np + 1, 3)} : np \in 0..m}

CallLike(op, depth) ==
  UNION {{I(op, f, sh[1], sh[2], sty) : f \in Fns, sh \in Shapes(m), sty \in Styles}
         : m \in 0..(IF depth < MaxArgs THEN depth ELSE MaxArgs)}

Candidates(depth) ==
  LET on(op) == op \in Ops IN
  (IF on("lit") THEN {I("lit", n, 0, <<>>, "") : n \in Lits} ELSE {})
  \cup (IF on("par") THEN {I("par", p, 0, <<>>, "") : p \in Params} ELSE {})
  \cup (IF on("fn") THEN {I("fn", f, 0, <<>>, "") : f \in Fns} ELSE {})
  \cup {I("ld", v, 0, <<>>, "") : v \in 1..NVars}
  \cup {I("st", v, 0, <<>>, "") : v \in 1..NVars}
  \cup (IF on("mk") THEN {I("mk", n, via, <<>>, k) : n \in 0..(IF depth < 2 THEN depth ELSE 2), via \in Vias, k \in MkKinds}
        ELSE {})
  \cup (IF on("call") THEN CallLike("call", depth) ELSE {})
  \cup (IF on("part") THEN CallLike("part", depth) ELSE {})
  \cup (IF on("ex") THEN {i \in CallLike("ex", depth) : i.sty = "plain"} ELSE {})
  \cup (IF on("afp") THEN {I("afp", f, 0, kw, "plain") : f \in Fns, kw \in AscSeqs(1, 1, 3) \cup AscSeqs(2, 1, 3)} ELSE {})
  \cup (IF on("repart") THEN {I("repart", 0, 0, kw, "plain") : kw \in AscSeqs(1, 1, 3)} ELSE {})
  \cup (IF on("tag") THEN {I("tag", t, 0, <<>>, "") : t \in TagMasks} ELSE {})
  \cup (IF on("ac") THEN {I("ac", g, b, <<>>, "") : g \in AcKinds, b \in 0..1} ELSE {})
  \cup (IF on("ife") THEN {I("ife", c, 0, <<>>, "") : c \in 0..1} ELSE {})
  \cup (IF on("comp") THEN {I("comp", n, 0, <<>>, "") : n \in CompNs} ELSE {})
  \cup {I("ret", 0, 0, <<>>, "")}

Init == prog = <<>> /\ st = InitState(NVars) /\ done = FALSE

Next ==
  /\ ~done
  /\ \E ins \in Candidates(Len(st.stk)) :
       /\ Enabled(st, ins)
       \* (random walks: from ForceRetAt instructions on, only finish what is on the stack)
       /\ Len(prog) >= ForceRetAt => IF Len(st.stk) = 1 THEN ins.op = "ret" ELSE Arity(ins) >= 2
       /\ ins.op = "st" => ins.a <= 1 + Cardinality({v \in 1..NVars : st.vars[v] # NoVar})   \* variables in order
       /\ prog' = Append(prog, ins)
       /\ st' = Exec(st, ins)
       /\ done' = (ins.op = "ret")

Bounded ==
  /\ Len(prog) <= MaxLen
  /\ Len(st.stk) <= MaxStack
  /\ Len(st.hb) <= MaxHeap
  \* what is on the stack can still be consumed and returned
  /\ (~done => Len(prog) + (IF Len(st.stk) > 1 THEN 2 ELSE 1) <= MaxLen)

ModelTheorem == (done /\ Bounded) => BuildEqualsCall(st)
\* as_buildable invokes nothing but exempted callables
OnlyExemptInvoked ==
  (done /\ Bounded) =>
    \A i \in 1..Len(st.inv) : \E j \in 1..Len(prog) : prog[j].op = "ex" /\ prog[j].a = st.inv[i]
\* stores do not change an object once allocated (heaps only grow)
HeapsGrow == [][Len(st'.hb) >= Len(st.hb) /\ SubSeq(st'.hb, 1, Len(st.hb)) = st.hb
               /\ SubSeq(st'.hd, 1, Len(st.hd)) = st.hd]_vars

Emit ==
  (EmitOn /\ done /\ Bounded) =>
    LET e == st.stk[1] IN
    PrintT(ToJson([prog |-> prog,
                   b |-> CanonV(st.hb, e.b), broot |-> RootV(e.b),
                   d |-> CanonV(st.hd, e.d), droot |-> RootV(e.d),
                   inv |-> st.inv, cb |-> ContainsBuildable(st.hb, e.b),
                   cf |-> UsesControlFlow(prog)]))

\* negative controls (TLC must refute them: the generator reaches such programs)
NeverTaggedInResult ==
  (done /\ Bounded) => LET e == st.stk[1] IN
     IsRef(e.b) => \A o \in Reach(st.hb, -e.b) : st.hb[o].k # "tagged"
NeverShared ==
  (done /\ Bounded) => LET e == st.stk[1] IN
     IsRef(e.d) => \A o \in Reach(st.hd, -e.d) :
        Cardinality({<<p, j>> \in Reach(st.hd, -e.d) \X (1..3) :
                       j <= Len(st.hd[p].items) /\ st.hd[p].items[j].val = -o}) <= 1
=============================================================================
