-------------------------------- MODULE FdlEq --------------------------------
(***************************************************************************)
(* C06: == on Buildables.                                                  *)
(*                                                                         *)
(* Level A  Equiv(h1, r1, h2, r2): the statement.  Two configurations are  *)
(*   equal iff, after making defaults explicit, forgetting tags, history   *)
(*   and dict insertion order, their canonical forms coincide -- same      *)
(*   Buildable types, callables, argument values and sharing structure.    *)
(*   (Leaf-only tuples have value semantics; the generator never shares    *)
(*   them, so their identity does not enter Canon.)                        *)
(*                                                                         *)
(* Level B  EqImpl: fiddle's comparison algorithm -- at every Buildable    *)
(*   node: same type and callable, argument values (with defaults)         *)
(*   pairwise equal by Python's == (structural, identity-blind), and the   *)
(*   set of first-visit paths of a memoized traversal of the node's        *)
(*   subtree equal.  With AliasFix the traversal also records, for every   *)
(*   reference to an already visited object, where that object was first   *)
(*   seen.  TLC checks EqImpl = Equiv on all pairs it explores.            *)
(***************************************************************************)
EXTENDS FdlHeap

CONSTANT AliasFix     \* TRUE: algorithm as repaired; FALSE: as found (negative control)

RealSlots == 3
DfltVal(slot) == 1000 + slot

\* ---- normal form: defaults explicit, tags dropped, dict items ordered by key ----
RECURSIVE SortItems(_)
SortItems(its) ==
  IF its = <<>> THEN <<>>
  ELSE LET m == CHOOSE i \in 1..Len(its) : \A j \in 1..Len(its) : its[i].key <= its[j].key IN
       <<its[m]>> \o SortItems([j \in 1..Len(its) - 1 |-> IF j < m THEN its[j] ELSE its[j + 1]])

NormObj(o) ==
  IF IsBuildableKind(o.k)
  THEN Obj(o.k, o.fn,
           [s \in 1..RealSlots |->
              LET js == {j \in 1..Len(o.items) : o.items[j].key = s /\ o.items[j].val # 0} IN
              IF js = {} THEN Item(s, DfltVal(s))
              ELSE Item(s, o.items[CHOOSE j \in js : TRUE].val)])
  ELSE IF o.k = "dict" THEN Obj(o.k, o.fn, SortItems([j \in 1..Len(o.items) |-> Item(o.items[j].key, o.items[j].val)]))
  ELSE Obj(o.k, o.fn, [j \in 1..Len(o.items) |-> Item(o.items[j].key, o.items[j].val)])
NormEq(h) == [i \in 1..Len(h) |-> NormObj(h[i])]

Equiv(h1, r1, h2, r2) == Canon(NormEq(h1), r1) = Canon(NormEq(h2), r2)

(* ------------------------------ level B -------------------------------- *)
\* Python's == on values: structural, identity-blind (Buildables: type, callable, arguments)
RECURSIVE PyEq(_, _, _, _)
PyEq(h1, v1, h2, v2) ==
  IF ~IsRef(v1) \/ ~IsRef(v2) THEN v1 = v2
  ELSE LET a == h1[-v1]  b == h2[-v2] IN
       /\ a.k = b.k /\ a.fn = b.fn /\ Len(a.items) = Len(b.items)
       /\ \A j \in 1..Len(a.items) :
            a.items[j].key = b.items[j].key /\ PyEq(h1, a.items[j].val, h2, b.items[j].val)

StepOf(o, j) == <<o.k, IF o.k \in {"list", "tuple", "ntuple"} THEN j - 1 ELSE o.items[j].key>>

\* memoized depth-first traversal from `v`: the set of paths at which something is
\* yielded (objects at their first visit, leaves at every occurrence below a first visit),
\* and the alias edges <<path of a repeated reference, first path of its target>>.
RECURSIVE Walk(_, _, _, _)
\* stack: sequence of <<value, path>>; seen: function object -> first path (as a set of pairs)
Walk(h, stack, seen, acc) ==
  IF stack = <<>> THEN acc
  ELSE LET v == Head(stack)[1]  p == Head(stack)[2] IN
       IF ~IsRef(v) THEN Walk(h, Tail(stack), seen, [acc EXCEPT !.paths = @ \cup {p}])
       ELSE LET o == -v
                firsts == {q \in seen : q[1] = o} IN
            IF firsts # {}
            THEN Walk(h, Tail(stack), seen,
                      [acc EXCEPT !.alias = @ \cup {<<p, (CHOOSE q \in firsts : TRUE)[2]>>}])
            ELSE Walk(h,
                      [j \in 1..Len(h[o].items) |->
                         <<h[o].items[j].val, Append(p, StepOf(h[o], j))>>] \o Tail(stack),
                      seen \cup {<<o, p>>},
                      [acc EXCEPT !.paths = @ \cup {p}])
Shape(h, v) ==
  LET w == Walk(h, <<<<v, <<>>>>>>, {}, [paths |-> {}, alias |-> {}]) IN
  IF AliasFix THEN w ELSE [paths |-> w.paths, alias |-> {}]

\* fiddle's _compare_buildable, which Python's == reaches again at every nested Buildable
RECURSIVE EqImplV(_, _, _, _)
EqImplV(h1, v1, h2, v2) ==
  IF ~IsRef(v1) \/ ~IsRef(v2) THEN v1 = v2
  ELSE LET a == h1[-v1]  b == h2[-v2] IN
       /\ a.k = b.k /\ a.fn = b.fn /\ Len(a.items) = Len(b.items)
       /\ \A j \in 1..Len(a.items) :
            a.items[j].key = b.items[j].key /\ EqImplV(h1, a.items[j].val, h2, b.items[j].val)
       /\ (IsBuildableKind(a.k) => Shape(h1, v1) = Shape(h2, v2))

EqImpl(h1, r1, h2, r2) == EqImplV(NormEq(h1), -r1, NormEq(h2), -r2)
=============================================================================
