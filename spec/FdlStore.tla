------------------------------ MODULE FdlStore ------------------------------
(***************************************************************************)
(* Level A reference model of a Buildable's argument store (C03, C01, C16). *)
(*                                                                         *)
(* The statement of C03, literally: named parameters behave like a dict    *)
(* restricted to the signature (extra names only with **kwargs); the       *)
(* positional view behaves like a Python list whose first NPos cells       *)
(* (positional-only and positional-or-keyword parameters) have fixed       *)
(* length and whose tail is *args.                                         *)
(*                                                                         *)
(* Everything is integers so that TLC can compare and ToJson can print:    *)
(*   values    : 0 = unset cell, n > 0 = leaf n (interned by the harness)  *)
(*   reads     : -1 = fdl.NO_VALUE, 1000+i = the default object of param i *)
(*   names     : parameter i has name id i; 101,102.. are names that are   *)
(*               not in the signature ("extras")                           *)
(*   slice flds: 99 = None, 98 = fdl.VARARGS                               *)
(*                                                                         *)
(* The semantics is functional: Apply(sig, S, op) = [out, S, ret].  The    *)
(* model checker (MC_C03), the per-transition emitter (S->C) and the trace *)
(* validator (C->S) all use this one operator.                             *)
(***************************************************************************)
EXTENDS Integers, Sequences, FiniteSets, TLC

NONE    == 99
VA      == 98
UNSET   == 0
NOVALUE == -1
Dflt(i) == 1000 + i
Extras  == {101, 102}

Kinds == {"PO", "PK", "VP", "KO", "VK"}
Rank(k) == CASE k = "PO" -> 1 [] k = "PK" -> 2 [] k = "VP" -> 3
             [] k = "KO" -> 4 [] k = "VK" -> 5
Param == [kind : Kinds, dflt : BOOLEAN]

\* Python's rules for a def-signature.
ValidSig(s) ==
  /\ \A i \in 1..Len(s)-1 : Rank(s[i].kind) <= Rank(s[i+1].kind)
  /\ Cardinality({i \in 1..Len(s) : s[i].kind = "VP"}) <= 1
  /\ Cardinality({i \in 1..Len(s) : s[i].kind = "VK"}) <= 1
  /\ \A i \in 1..Len(s) : s[i].kind \in {"VP", "VK"} => ~s[i].dflt
  /\ \A i, j \in 1..Len(s) :
        (i < j /\ s[i].kind \in {"PO", "PK"} /\ s[j].kind \in {"PO", "PK"}
         /\ s[i].dflt) => s[j].dflt

SigsUpTo(n) == UNION {{s \in [1..m -> Param] : ValidSig(s)} : m \in 0..n}

NPos(s)  == Cardinality({i \in 1..Len(s) : s[i].kind \in {"PO", "PK"}})
HasVP(s) == \E i \in 1..Len(s) : s[i].kind = "VP"
HasVK(s) == \E i \in 1..Len(s) : s[i].kind = "VK"

Range(q) == {q[i] : i \in 1..Len(q)}
Max(a, b) == IF a > b THEN a ELSE b

(***************************************************************************)
(* Python slice arithmetic (PySlice_AdjustIndices) and list operations,    *)
(* transcribed from the language reference; cross-checked against CPython  *)
(* by the harness self-test on every triple used.                          *)
(***************************************************************************)
Adj(x, len, step) ==
  IF x < 0 THEN (IF x + len < 0 THEN (IF step < 0 THEN -1 ELSE 0) ELSE x + len)
  ELSE (IF x >= len THEN (IF step < 0 THEN len - 1 ELSE len) ELSE x)
SliceStart(st, len, step) ==
  IF st = NONE THEN (IF step < 0 THEN len - 1 ELSE 0) ELSE Adj(st, len, step)
SliceStop(sp, len, step) ==
  IF sp = NONE THEN (IF step < 0 THEN -1 ELSE len) ELSE Adj(sp, len, step)
RECURSIVE RangeSeq(_, _, _)
RangeSeq(a, b, step) ==
  IF (step > 0 /\ a >= b) \/ (step < 0 /\ a <= b) THEN <<>>
  ELSE <<a>> \o RangeSeq(a + step, b, step)
SliceIdx(st, sp, step, len) ==
  RangeSeq(SliceStart(st, len, step), SliceStop(sp, len, step), step)

(***************************************************************************)
(* State of one Buildable: S = [pre, va, ko, ex]                            *)
(*   pre : Seq(Val) of length NPos(sig)  -- fixed positional prefix        *)
(*   va  : Seq(Val \ {0})                -- *args                          *)
(*   ko  : [1..Len(sig) -> Val]          -- keyword-only cells (others 0)  *)
(*   ex  : [1..Len(sig)+2 -> Val]        -- what **kwargs receives: cell i *)
(*         <= Len(sig) is a keyword named like parameter i (possible only  *)
(*         for positional-only / variadic parameters, through the          *)
(*         constructor); the last two cells are the names 101 and 102      *)
(***************************************************************************)
EmptyState(sig) ==
  [pre |-> [i \in 1..NPos(sig) |-> UNSET], va |-> <<>>,
   ko |-> [i \in 1..Len(sig) |-> UNSET], ex |-> [i \in 1..Len(sig) + 2 |-> UNSET]]

ExIdx(sig, n) == IF n > 100 THEN Len(sig) + (n - 100) ELSE n
ExName(sig, j) == IF j > Len(sig) THEN 100 + (j - Len(sig)) ELSE j

L(S) == S.pre \o S.va
CellView(sig, S, i) ==   \* what cfg[i-1] reports
  LET l == L(S) IN
  IF l[i] # UNSET THEN l[i]
  ELSE IF i <= NPos(sig) /\ sig[i].dflt THEN Dflt(i) ELSE NOVALUE
View(sig, S) == [i \in 1..Len(L(S)) |-> CellView(sig, S, i)]

WellFormed(sig, S) ==
  /\ Len(S.pre) = NPos(sig)
  /\ \A i \in 1..Len(S.va) : S.va[i] # UNSET
  /\ (~HasVP(sig) => S.va = <<>>)
  /\ \A i \in 1..Len(sig) : sig[i].kind # "KO" => S.ko[i] = UNSET
  /\ Len(S.ex) = Len(sig) + 2
  /\ (~HasVK(sig) => \A j \in 1..Len(S.ex) : S.ex[j] = UNSET)
  /\ \A j \in 1..Len(sig) : sig[j].kind \in {"PK", "KO"} => S.ex[j] = UNSET

Res(o, S, r) == [out |-> o, S |-> S, ret |-> r]
Ok(S)        == Res("ok", S, <<>>)
OkRet(S, r)  == Res("ok", S, r)
Raise(S)     == Res("raise", S, <<>>)   \* S is always the *unchanged* state
Either(S)    == Res("either", S, <<>>)  \* ok-unchanged or raise-unchanged

FromList(sig, S, l2) ==
  [S EXCEPT !.pre = SubSeq(l2, 1, NPos(sig)),
            !.va  = SubSeq(l2, NPos(sig) + 1, Len(l2))]

\* Index fields: VARARGS stands for the position where *args starts.
Rv(sig, x) == IF x = VA THEN NPos(sig) ELSE x
Norm(i, len) == IF i < 0 THEN i + len ELSE i

GetItem(sig, S, i0) ==
  LET len == Len(L(S))  n == Norm(Rv(sig, i0), len) IN
  IF n \in 0..len-1 THEN OkRet(S, <<CellView(sig, S, n + 1)>>) ELSE Raise(S)

SetItem(sig, S, i0, v) ==
  LET len == Len(L(S))  n == Norm(Rv(sig, i0), len) IN
  IF n \in 0..len-1 THEN Ok(FromList(sig, S, [L(S) EXCEPT ![n + 1] = v]))
  ELSE Raise(S)

DelCells(sig, S, idxset) ==
  [S EXCEPT
     !.pre = [i \in 1..Len(S.pre) |-> IF (i - 1) \in idxset THEN UNSET ELSE S.pre[i]],
     !.va  = SelectSeq([j \in 1..Len(S.va) |->
                          IF (j - 1 + NPos(sig)) \in idxset THEN UNSET ELSE S.va[j]],
                       LAMBDA x : x # UNSET)]

DelItem(sig, S, i0) ==
  LET len == Len(L(S))  n == Norm(Rv(sig, i0), len) IN
  IF n \notin 0..len-1 THEN Raise(S)
  ELSE IF n < NPos(sig) /\ S.pre[n + 1] = UNSET THEN Either(S)
  ELSE Ok(DelCells(sig, S, {n}))

GetSlice(sig, S, st, sp, step0) ==
  LET step == IF step0 = NONE THEN 1 ELSE step0 IN
  IF step = 0 THEN Raise(S)
  ELSE LET idx == SliceIdx(Rv(sig, st), Rv(sig, sp), step, Len(L(S))) IN
       OkRet(S, [j \in 1..Len(idx) |-> CellView(sig, S, idx[j] + 1)])

DelSlice(sig, S, st, sp, step0) ==
  LET step == IF step0 = NONE THEN 1 ELSE step0 IN
  IF step = 0 THEN Raise(S)
  ELSE Ok(DelCells(sig, S, Range(SliceIdx(Rv(sig, st), Rv(sig, sp), step, Len(L(S))))))

RECURSIVE PointwiseSet(_, _, _)
PointwiseSet(l, idx, vals) ==
  IF idx = <<>> THEN l
  ELSE PointwiseSet([l EXCEPT ![Head(idx) + 1] = Head(vals)], Tail(idx), Tail(vals))

SetSlice(sig, S, st, sp, step0, vals) ==
  LET step == IF step0 = NONE THEN 1 ELSE step0 IN
  IF step = 0 THEN Raise(S)
  ELSE
    LET l     == L(S)
        len   == Len(l)
        start == SliceStart(Rv(sig, st), len, step)
        stop  == SliceStop(Rv(sig, sp), len, step)
        idx   == RangeSeq(start, stop, step)
        touchesPrefix ==
          \/ ~HasVP(sig)
          \/ \E i \in Range(idx) : i < NPos(sig)
          \/ (idx = <<>> /\ start < NPos(sig))
    IN
    IF touchesPrefix \/ step # 1
    THEN IF Len(vals) # Len(idx) THEN Raise(S)
         ELSE Ok(FromList(sig, S, PointwiseSet(l, idx, vals)))
    ELSE \* plain list splice inside *args
         Ok(FromList(sig, S,
              SubSeq(l, 1, start) \o vals \o SubSeq(l, Max(start, stop) + 1, len)))

NameKind(sig, n) == IF n \in 1..Len(sig) THEN sig[n].kind ELSE "EX"

SetAttr(sig, S, n, v) ==
  LET k == NameKind(sig, n) IN
  CASE k = "PK" -> Ok([S EXCEPT !.pre[n] = v])
    [] k = "KO" -> Ok([S EXCEPT !.ko[n] = v])
    [] k = "EX" -> IF HasVK(sig) THEN Ok([S EXCEPT !.ex[ExIdx(sig, n)] = v]) ELSE Raise(S)
    [] OTHER    -> Raise(S)          \* PO, VP by name (VK's own name: not in domain)

GetAttr(sig, S, n) ==
  LET k == NameKind(sig, n)
      cell == CASE k = "PK" -> S.pre[n] [] k = "KO" -> S.ko[n]
                [] k = "EX" -> S.ex[ExIdx(sig, n)] [] OTHER -> UNSET
  IN
  IF k \in {"PO", "VP", "VK"} THEN Raise(S)
  ELSE IF cell # UNSET THEN OkRet(S, <<cell>>)
  ELSE IF k # "EX" /\ sig[n].dflt THEN OkRet(S, <<Dflt(n)>>)
  ELSE Raise(S)

DelAttr(sig, S, n) ==
  LET k == NameKind(sig, n) IN
  CASE k = "PK" -> IF S.pre[n] # UNSET THEN Ok([S EXCEPT !.pre[n] = UNSET]) ELSE Raise(S)
    [] k = "KO" -> IF S.ko[n] # UNSET THEN Ok([S EXCEPT !.ko[n] = UNSET]) ELSE Raise(S)
    [] k = "EX" -> IF S.ex[ExIdx(sig, n)] # UNSET
                   THEN Ok([S EXCEPT !.ex[ExIdx(sig, n)] = UNSET]) ELSE Raise(S)
    [] OTHER    -> Raise(S)

(***************************************************************************)
(* Reports: fdl.ordered_arguments under its flags, dir().                  *)
(* Result of OrderedArgs is a flat sequence <<t, key, value, ...>> with    *)
(* t = 0 for an index key (0-based) and t = 1 for a name key.  Extras come *)
(* last, ordered by name id (their real order is insertion order, which    *)
(* the statement does not fix; the replayer sorts them the same way).      *)
(***************************************************************************)
RECURSIVE OAParams(_, _, _, _, _)
OAParams(sig, S, i, incDefaults, incUnset) ==
  IF i > Len(sig) THEN <<>>
  ELSE
    LET k == sig[i].kind
        cell == CASE k \in {"PO", "PK"} -> S.pre[i] [] k = "KO" -> S.ko[i] [] OTHER -> UNSET
        val == IF cell # UNSET THEN cell
               ELSE IF sig[i].dflt THEN (IF incDefaults THEN Dflt(i) ELSE UNSET)
               ELSE IF incUnset THEN NOVALUE ELSE UNSET
        here == CASE k \in {"VP"} -> [j \in 1..(3 * Len(S.va)) |->
                                        CASE j % 3 = 1 -> 0
                                          [] j % 3 = 2 -> NPos(sig) + (j - 2) \div 3
                                          [] OTHER -> S.va[j \div 3]]
                  [] k = "VK" -> <<>>
                  [] OTHER -> IF val = UNSET THEN <<>>
                              ELSE IF k = "PO" THEN <<0, i - 1, val>> ELSE <<1, i, val>>
    IN here \o OAParams(sig, S, i + 1, incDefaults, incUnset)

RECURSIVE OAExtrasFrom(_, _, _)
OAExtrasFrom(sig, S, j) ==
  IF j > Len(S.ex) THEN <<>>
  ELSE (IF S.ex[j] # UNSET THEN <<1, ExName(sig, j), S.ex[j]>> ELSE <<>>)
       \o OAExtrasFrom(sig, S, j + 1)
OAExtras(sig, S) == OAExtrasFrom(sig, S, 1)

RECURSIVE DropPositional(_)
DropPositional(q) ==
  IF q = <<>> THEN <<>>
  ELSE (IF q[1] = 0 THEN <<>> ELSE SubSeq(q, 1, 3)) \o DropPositional(SubSeq(q, 4, Len(q)))

\* flags: bit0 include_var_keyword, bit1 include_defaults, bit2 include_unset,
\*        bit3 include_positional
Bit(f, b) == (f \div (2 ^ b)) % 2 = 1
OrderedArgs(sig, S, f) ==
  LET base == OAParams(sig, S, 1, Bit(f, 1), Bit(f, 2))
              \o (IF Bit(f, 0) THEN OAExtras(sig, S) ELSE <<>>)
  IN IF Bit(f, 3) THEN base ELSE DropPositional(base)

DirNames(sig, S) ==
  {i \in 1..Len(sig) : sig[i].kind \in {"PK", "KO"}}
    \cup {ExName(sig, j) : j \in {j \in 1..Len(S.ex) : S.ex[j] # UNSET}}

(***************************************************************************)
(* One operator for every operation record                                 *)
(*   [name, a, b, c, vals]                                                 *)
(***************************************************************************)
Op(n, a, b, c, vals) == [name |-> n, a |-> a, b |-> b, c |-> c, vals |-> vals]

SetToSeq(s) ==   \* ascending
  LET RECURSIVE F(_)
      F(t) == IF t = {} THEN <<>>
              ELSE LET m == CHOOSE x \in t : \A y \in t : x <= y IN <<m>> \o F(t \ {m})
  IN F(s)

Apply(sig, S, op) ==
  CASE op.name = "getitem"  -> GetItem(sig, S, op.a)
    [] op.name = "setitem"  -> SetItem(sig, S, op.a, op.vals[1])
    [] op.name = "delitem"  -> DelItem(sig, S, op.a)
    [] op.name = "getslice" -> GetSlice(sig, S, op.a, op.b, op.c)
    [] op.name = "setslice" -> SetSlice(sig, S, op.a, op.b, op.c, op.vals)
    [] op.name = "delslice" -> DelSlice(sig, S, op.a, op.b, op.c)
    [] op.name = "getattr"  -> GetAttr(sig, S, op.a)
    [] op.name = "setattr"  -> SetAttr(sig, S, op.a, op.vals[1])
    [] op.name = "delattr"  -> DelAttr(sig, S, op.a)
    [] op.name = "oargs"    -> OkRet(S, OrderedArgs(sig, S, op.a))
    [] op.name = "dir"      -> OkRet(S, SetToSeq(DirNames(sig, S)))

=============================================================================
