------------------------------- MODULE MC_C18 -------------------------------
(* C18 part (1): heaps with the flattened leaves and every override; part (2): the path token theorem. *)
EXTENDS FdlGen, FdlFlags, Json
CONSTANT EmitOn
Init == GenInit
Next == NewObj
C == Canon(heap, Root)
OK18 == IsComplete /\ GenPrune /\ IsBuildableKind(heap[Root].k)

\* every listed leaf is below a Buildable and holds no Buildable; overriding it changes one item only
LeavesLaw ==
  OK18 => \A pr \in FlatLeaves(C, 1) :
            /\ Sound(C, 1, pr)
            /\ (~ThroughTuple(pr[1]) =>
                  LET h2 == Override(C, 1, pr[1], 9) IN
                  /\ Follow(h2, -1, pr[1]) = 9
                  /\ Cardinality({o \in 1..Len(C) : h2[o] # C[o]}) = 1)

Elems == {<<"attr", 1>>, <<"attr", 2>>, <<"index", 0>>, <<"index", 2>>, <<"keystr", 1>>, <<"keyint", 2>>}
PathTokensRoundTrip ==
  \A p \in UNION {[1..n -> Elems] : n \in 0..3} : RoundTrips(p)

Emit ==
  (EmitOn /\ OK18) =>
    PrintT(ToJson([heap |-> C,
                   leaves |-> FlatLeaves(C, 1),
                   overrides |-> {<<pr[1], Canon(Override(C, 1, pr[1], 9), 1)>> :
                                    pr \in {q \in FlatLeaves(C, 1) : ~ThroughTuple(q[1])}}]))
=============================================================================
