------------------------------- MODULE FdlBytes -------------------------------
(***************************************************************************)
(* C09, level B for one leaf class: how bytes travel through the JSON       *)
(* document.  A byte string is abstracted to symbols                        *)
(*   "B" backslash, "u" the letter u, "Z" the digit 0, "H" another hex      *)
(*   digit, "O" any other ASCII byte, "X" a byte >= 0x80.                   *)
(* Codec = "raw_unicode_escape" is the serializer as found: decoding turns  *)
(* the six bytes  \uHHHH  into ONE character; if that character is < 256    *)
(* (digits "ZZ..") encoding gives back a single byte -- the document is     *)
(* valid but the value changed silently.  A malformed escape makes decoding *)
(* raise (loud: allowed).  Codec = "latin1" maps every byte to one          *)
(* character and back.                                                      *)
(***************************************************************************)
EXTENDS Integers, Sequences, TLC

CONSTANTS MaxLen, Codec
Sym == {"B", "u", "Z", "H", "O", "X"}
Hex(s) == s \in {"Z", "H"}
Strings == UNION {[1..n -> Sym] : n \in 0..MaxLen}

\* result: [err |-> BOOLEAN, chars |-> sequence of characters]; a character is
\* <<"byte", s>>, <<"narrow", d3, d4>> or <<"wide", d1, d2, d3, d4>>
RECURSIVE DecRaw(_)
DecRaw(b) ==
  IF b = <<>> THEN [err |-> FALSE, chars |-> <<>>]
  ELSE IF b[1] = "B" /\ Len(b) >= 2 /\ b[2] = "u" THEN
         IF Len(b) < 6 \/ ~(\A i \in 3..6 : Hex(b[i])) THEN [err |-> TRUE, chars |-> <<>>]
         ELSE LET rest == DecRaw(SubSeq(b, 7, Len(b)))
                  ch == IF b[3] = "Z" /\ b[4] = "Z" THEN <<"narrow", b[5], b[6]>>
                        ELSE <<"wide", b[3], b[4], b[5], b[6]>>
              IN [err |-> rest.err, chars |-> <<ch>> \o rest.chars]
  ELSE LET rest == DecRaw(Tail(b)) IN [err |-> rest.err, chars |-> <<<<"byte", b[1]>>>> \o rest.chars]

RECURSIVE EncRaw(_)
EncRaw(cs) ==
  IF cs = <<>> THEN <<>>
  ELSE LET c == Head(cs) IN
       (IF c[1] = "byte" THEN <<c[2]>>
        ELSE IF c[1] = "narrow" THEN <<"O">>            \* one byte: not the six that were there
        ELSE <<"B", "u", c[2], c[3], c[4], c[5]>>) \o EncRaw(Tail(cs))

Dec(x) == IF Codec = "latin1" THEN [err |-> FALSE, chars |-> [i \in 1..Len(x) |-> <<"byte", x[i]>>]]
          ELSE DecRaw(x)
Enc(cs) == IF Codec = "latin1" THEN [i \in 1..Len(cs) |-> cs[i][2]] ELSE EncRaw(cs)

VARIABLE b
Init == b \in Strings
Next == UNCHANGED b
LosslessOrLoud == LET d == Dec(b) IN d.err \/ Enc(d.chars) = b
=============================================================================
