------------------------------ MODULE FdlCodegen ------------------------------
(***************************************************************************)
(* C12 (level A): generated Python code reproduces the configuration.      *)
(* The generators are black boxes; the statement is a predicate over       *)
(* (input heap, generator, options, outcome, heap obtained by executing    *)
(* the emitted module):                                                    *)
(*   - if every tagged argument has a value the module must compile, run   *)
(*     and yield a configuration equal to the input in callables,          *)
(*     arguments, tags and sharing structure (Canon equality);             *)
(*   - otherwise the generator may reject, but must never emit a module    *)
(*     that yields something else.                                         *)
(***************************************************************************)
EXTENDS FdlHeap

TagsAllValued(h) ==
  \A o \in 1..Len(h) : \A j \in 1..Len(h[o].items) :
    (IsBuildableKind(h[o].k) /\ h[o].items[j].tg # 0) => h[o].items[j].val # 0

Judge(heap, out, result) ==
  IF out = "emitted" THEN (IF result = heap THEN "" ELSE "emitted-inexactly")
  ELSE IF out = "broken-module" THEN "module-does-not-run"
  ELSE IF out = "rejected" THEN (IF TagsAllValued(heap) THEN "rejected-expressible" ELSE "")
  ELSE "unknown-outcome"
=============================================================================
