------------------------------ MODULE Trace_C08 ------------------------------
(***************************************************************************)
(* C->S for C08: a record holds a canonical heap (projected from a real    *)
(* structure) and what the real traversals reported, as abstract           *)
(* <<path, value>> pairs; the record is accepted iff every stream          *)
(* satisfies its clause of FdlPaths.                                       *)
(***************************************************************************)
EXTENDS FdlPaths, Json, IOUtils

Traces == JsonDeserialize(IOEnv.TRACE_FILE)
VARIABLE i

Failed(t) ==
  LET h == t.heap IN
  IF ~BasicOK(h, 1, t.basic) THEN "basic"
  ELSE IF ~MemoOK(h, 1, t.memo) THEN "memo"
  ELSE IF ~ByIdOK(h, 1, t.byid) THEN "byid"
  ELSE IF t.rebuilt # Canon(h, 1) THEN "rebuild"
  ELSE ""

TInit == i = 0
TNext == /\ i < Len(Traces)
         /\ i' = i + 1
         /\ LET t == Traces[i + 1]  f == Failed(t) IN
            PrintT(ToJson([tid |-> t.tid, ok |-> f = "", failed |-> f]))
=============================================================================
