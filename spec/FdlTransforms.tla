---------------------------- MODULE FdlTransforms ----------------------------
(***************************************************************************)
(* C20 (level A): meaning-preserving transformations.  The post-state of a *)
(* transformation is NOT prescribed; the statement's clauses are predicates *)
(* over (pre, post):                                                       *)
(*   SameMeaning   the built graphs are structurally identical             *)
(*   StaysEqual    post == pre (materialize_defaults, with_defaults_trimmed)*)
(*   AllExplicit   after materialize_defaults every parameter with a       *)
(*                 default is explicitly set                               *)
(*   Idempotent    materialize_defaults twice = once                       *)
(*   KeepsSerializable                                                     *)
(* An unconfigured Partial (no argument different from its default) and    *)
(* the bare callable are the same meaning: both are the leaf 2000 + fn.    *)
(***************************************************************************)
EXTENDS FdlEq, FdlBuild

CallableLeaf(fn) == 2000 + fn

Unconfigured(o) ==
  /\ o.k = "partial"
  /\ \A j \in 1..Len(o.items) : o.items[j].val = 0 \/ o.items[j].val = DfltVal(o.items[j].key)

\* meaning normal form: defaults explicit, unconfigured partials as callable leaves
MRes(h, v) == IF IsRef(v) /\ Unconfigured(h[-v]) THEN CallableLeaf(h[-v].fn) ELSE v
MeaningHeap(h) ==
  LET n == NormEq(h) IN
  [i \in 1..Len(n) |->
     Obj(n[i].k, n[i].fn, [j \in 1..Len(n[i].items) |->
                             Item(n[i].items[j].key, MRes(h, n[i].items[j].val))])]
MeaningRoot(h, root) == MRes(h, -root)
Meaning(h, root) ==
  LET r == MeaningRoot(h, root) IN
  IF IsRef(r) THEN <<BuiltCanon(MeaningHeap(h), -r), 0>>
  ELSE <<<<>>, r>>

SameMeaning(h1, r1, h2, r2) ==
  /\ BuildFails(h1, r1) = BuildFails(h2, r2)
  /\ (~BuildFails(h1, r1) => Meaning(h1, r1) = Meaning(h2, r2))

AllExplicit(h, root) ==
  \A o \in Reach(h, root) :
    IsBuildableKind(h[o].k) =>
      \A s \in 1..RealSlots : \E j \in 1..Len(h[o].items) :
        h[o].items[j].key = s /\ h[o].items[j].val # 0

\* reference definition of materialize_defaults (to show the clauses are satisfiable)
RefMaterialize(h) ==
  [i \in 1..Len(h) |->
     IF ~IsBuildableKind(h[i].k) THEN h[i]
     ELSE Obj(h[i].k, h[i].fn,
              [s \in 1..RealSlots |->
                 LET js == {j \in 1..Len(h[i].items) : h[i].items[j].key = s} IN
                 IF js = {} THEN Item(s, DfltVal(s))
                 ELSE LET it == h[i].items[CHOOSE j \in js : TRUE] IN
                      ItemT(s, IF it.val = 0 THEN DfltVal(s) ELSE it.val, it.tg)])]
=============================================================================
