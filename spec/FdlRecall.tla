------------------------------ MODULE FdlRecall ------------------------------
(***************************************************************************)
(* Extended coverage X01 (level A): fdl.update_callable on the argument    *)
(* store.  Not one of the listed properties; the specification grows here  *)
(* to an API that changes a Buildable's signature.                          *)
(*                                                                         *)
(* UpdateCallable(sig, S, sig2, drop): sig2 has as many parameters as sig  *)
(* (parameter i keeps its name, its kind and default may change).          *)
(*   - a Buildable with positional (integer-keyed) arguments is refused;   *)
(*   - a set name is passable to the new callable iff it is a              *)
(*     positional-or-keyword or keyword-only parameter there, or the new   *)
(*     callable has **kwargs;                                              *)
(*   - with names that are not passable: drop them (drop = TRUE) or raise; *)
(*   - a refusal leaves the Buildable exactly as it was -- callable,       *)
(*     signature and arguments (Atomic);                                   *)
(*   - on success every remaining name keeps its value and is received     *)
(*     under that name when built (KeepsValues, ReceivedByName).           *)
(***************************************************************************)
EXTENDS FdlCall

Names(sig) == (1..Len(sig)) \cup Extras

ValOf(sig, S, n) ==
  IF n > 100 THEN S.ex[ExIdx(sig, n)]
  ELSE CASE sig[n].kind = "PK" -> S.pre[n]
         [] sig[n].kind = "KO" -> S.ko[n]
         [] OTHER -> S.ex[n]

NamesSet(sig, S) == {n \in Names(sig) : ValOf(sig, S, n) # UNSET}
HasIntKeys(sig, S) ==
  \/ \E i \in 1..NPos(sig) : sig[i].kind = "PO" /\ S.pre[i] # UNSET
  \/ S.va # <<>>

Passable(sig2, n) ==
  \/ n <= Len(sig2) /\ sig2[n].kind \in {"PK", "KO"}
  \/ HasVK(sig2)

RECURSIVE PlaceAll(_, _, _, _, _)
PlaceAll(sig, S, sig2, S2, ns) ==
  IF ns = {} THEN S2
  ELSE LET n == CHOOSE x \in ns : TRUE
           v == ValOf(sig, S, n)
           S3 == IF n > 100 THEN [S2 EXCEPT !.ex[ExIdx(sig2, n)] = v]
                 ELSE CASE sig2[n].kind = "PK" -> [S2 EXCEPT !.pre[n] = v]
                        [] sig2[n].kind = "KO" -> [S2 EXCEPT !.ko[n] = v]
                        [] OTHER -> [S2 EXCEPT !.ex[n] = v]
       IN PlaceAll(sig, S, sig2, S3, ns \ {n})

UpdateCallable(sig, S, sig2, drop) ==
  LET set == NamesSet(sig, S)
      bad == {n \in set : ~Passable(sig2, n)}
  IN IF HasIntKeys(sig, S) THEN [out |-> "raise", sig |-> sig, S |-> S]
     ELSE IF bad # {} /\ ~drop THEN [out |-> "raise", sig |-> sig, S |-> S]
     ELSE [out |-> "ok", sig |-> sig2, S |-> PlaceAll(sig, S, sig2, EmptyState(sig2), set \ bad)]

\* which names the Buildable accepts in an assignment afterwards (the active signature)
Accepts(sig, n) == SetAttr(sig, EmptyState(sig), n, 1).out = "ok"
=============================================================================
