------------------------------ MODULE FdlThreads ------------------------------
(***************************************************************************)
(* C19 (level B): fiddle's module-level state under thread interleaving.   *)
(*                                                                         *)
(* State that is shared between threads, as in the code:                   *)
(*   inBuild[f]    building._state.in_build      (threading.local)         *)
(*   tracking[f]   history._tracking_state.enabled (threading.local)       *)
(*   counter       history._set_counter (itertools.count; next() is atomic) *)
(*   sigCache      signatures._signature_cache (weak dict, get-or-compute)  *)
(*   excCache      reraised_exception.make_exception_class (lru_cache)      *)
(* F(t) is the flag cell thread t uses: t itself (thread-local, as the     *)
(* code is written) or 0 for every thread (GlobalFlags = TRUE, the         *)
(* negative control: what would happen without threading.local).           *)
(*                                                                         *)
(* One action per access to shared state.  Programs:                       *)
(*   "build"   fdl.build with a slow callable                              *)
(*   "nested"  a callable that calls fdl.build inside (must be rejected)   *)
(*   "fail"    a callable that raises (exception proxy class via cache)    *)
(*   "edit"    edit; with suspend_tracking(): edit; edit                   *)
(*   "sig"     first-time signature lookup of a callable shared by threads *)
(*   "copy"    deepcopy, ==, dump_json of a private configuration (touches  *)
(*             no module-level state in this model)                        *)
(***************************************************************************)
EXTENDS Integers, Sequences, FiniteSets, TLC

CONSTANTS N, GlobalFlags, ProgNames
\* progs : the program each thread runs (chosen in Init, constant afterwards)

Thr == 1..N
F(t) == IF GlobalFlags THEN 0 ELSE t
Cells == IF GlobalFlags THEN {0} ELSE Thr

VARIABLES pc, inBuild, tracking, counter, sigCache, excCache, saved, hist, result, progs

vars == <<pc, inBuild, tracking, counter, sigCache, excCache, saved, hist, result, progs>>

Init ==
  /\ progs \in [Thr -> ProgNames]
  /\ pc = [t \in Thr |-> "start"]
  /\ inBuild = [c \in Cells |-> FALSE]
  /\ tracking = [c \in Cells |-> TRUE]
  /\ counter = 0
  /\ sigCache = "empty" /\ excCache = "empty"
  /\ saved = [t \in Thr |-> TRUE]
  /\ hist = [t \in Thr |-> <<>>]
  /\ result = [t \in Thr |-> "none"]

Goto(t, l) == pc' = [pc EXCEPT ![t] = l]
Finish(t, r) == pc' = [pc EXCEPT ![t] = "done"] /\ result' = [result EXCEPT ![t] = r]

\* ---- fdl.build: guard check, set, body, reset (try/finally) ----
Start(t) ==
  /\ pc[t] = "start"
  /\ Goto(t, CASE progs[t] \in {"build", "nested", "fail"} -> "b_check"
               [] progs[t] = "edit" -> "e1"
               [] progs[t] = "copy" -> "c_done"
               [] OTHER -> "sig_lookup")
  /\ UNCHANGED <<inBuild, tracking, counter, sigCache, excCache, saved, hist, result>>
BCheck(t) ==
  /\ pc[t] = "b_check"
  /\ IF inBuild[F(t)]
     THEN Finish(t, "rejected-at-top") /\ UNCHANGED <<inBuild>>
     ELSE Goto(t, "b_set") /\ UNCHANGED <<inBuild, result>>
  /\ UNCHANGED <<tracking, counter, sigCache, excCache, saved, hist>>
BSet(t) ==
  /\ pc[t] = "b_set"
  /\ inBuild' = [inBuild EXCEPT ![F(t)] = TRUE]
  /\ Goto(t, "b_body")
  /\ UNCHANGED <<tracking, counter, sigCache, excCache, saved, hist, result>>
\* the user callable runs; "nested" issues fdl.build again: its guard check
BBody(t) ==
  /\ pc[t] = "b_body"
  /\ Goto(t, CASE progs[t] = "nested" -> "n_check" [] progs[t] = "fail" -> "x_lookup"
               [] OTHER -> "b_reset")
  /\ UNCHANGED <<inBuild, tracking, counter, sigCache, excCache, saved, hist, result>>
NCheck(t) ==
  /\ pc[t] = "n_check"
  \* inside its own build the flag must be seen TRUE: the nested build is rejected
  /\ result' = [result EXCEPT ![t] = IF inBuild[F(t)] THEN "nested-rejected" ELSE "nested-accepted"]
  /\ Goto(t, "b_reset")
  /\ UNCHANGED <<inBuild, tracking, counter, sigCache, excCache, saved, hist>>
XLookup(t) ==      \* exception proxy class: lru_cache get-or-create, keyed by the class
  /\ pc[t] = "x_lookup"
  /\ excCache' = "proxy"
  /\ result' = [result EXCEPT ![t] = "raised-proxy"]
  /\ Goto(t, "b_reset")
  /\ UNCHANGED <<inBuild, tracking, counter, sigCache, saved, hist>>
BReset(t) ==
  /\ pc[t] = "b_reset"
  /\ inBuild' = [inBuild EXCEPT ![F(t)] = FALSE]
  /\ pc' = [pc EXCEPT ![t] = "done"]
  /\ result' = [result EXCEPT ![t] = IF result[t] = "none" THEN "built" ELSE result[t]]
  /\ UNCHANGED <<tracking, counter, sigCache, excCache, saved, hist>>

\* ---- edits and suspend_tracking ----
Edit(t, from, to) ==
  /\ pc[t] = from
  /\ IF tracking[F(t)]
     THEN /\ hist' = [hist EXCEPT ![t] = Append(@, counter)]    \* next(_set_counter): atomic
          /\ counter' = counter + 1
     ELSE UNCHANGED <<hist, counter>>
  /\ Goto(t, to)
  /\ UNCHANGED <<inBuild, tracking, sigCache, excCache, saved, result>>
SSave(t) ==
  /\ pc[t] = "s_save"
  /\ saved' = [saved EXCEPT ![t] = tracking[F(t)]]
  /\ Goto(t, "s_off")
  /\ UNCHANGED <<inBuild, tracking, counter, sigCache, excCache, hist, result>>
SOff(t) ==
  /\ pc[t] = "s_off"
  /\ tracking' = [tracking EXCEPT ![F(t)] = FALSE]
  /\ Goto(t, "e2")
  /\ UNCHANGED <<inBuild, counter, sigCache, excCache, saved, hist, result>>
SRestore(t) ==
  /\ pc[t] = "s_restore"
  /\ tracking' = [tracking EXCEPT ![F(t)] = saved[t]]
  /\ Goto(t, "e3")
  /\ UNCHANGED <<inBuild, counter, sigCache, excCache, saved, hist, result>>
EDone(t) ==
  /\ pc[t] = "e_done"
  /\ Finish(t, "edited")
  /\ UNCHANGED <<inBuild, tracking, counter, sigCache, excCache, saved, hist>>

\* ---- signature cache: lookup, compute on miss, store ----
SigLookup(t) ==
  /\ pc[t] = "sig_lookup"
  /\ Goto(t, IF sigCache = "empty" THEN "sig_compute" ELSE "sig_done")
  /\ UNCHANGED <<inBuild, tracking, counter, sigCache, excCache, saved, hist, result>>
SigCompute(t) ==
  /\ pc[t] = "sig_compute"
  /\ sigCache' = "sig"          \* every thread computes the same value for the same callable
  /\ Goto(t, "sig_done")
  /\ UNCHANGED <<inBuild, tracking, counter, excCache, saved, hist, result>>
SigDone(t) ==
  /\ pc[t] = "sig_done"
  /\ Finish(t, "sig-ok")
  /\ UNCHANGED <<inBuild, tracking, counter, sigCache, excCache, saved, hist>>

CDone(t) ==
  /\ pc[t] = "c_done"
  /\ Finish(t, "copied")
  /\ UNCHANGED <<inBuild, tracking, counter, sigCache, excCache, saved, hist>>

Step(t) ==
  \/ CDone(t)
  \/ Start(t) \/ BCheck(t) \/ BSet(t) \/ BBody(t) \/ NCheck(t) \/ XLookup(t) \/ BReset(t)
  \/ Edit(t, "e1", "s_save") \/ SSave(t) \/ SOff(t) \/ Edit(t, "e2", "s_restore") \/ SRestore(t)
  \/ Edit(t, "e3", "e_done") \/ EDone(t)
  \/ SigLookup(t) \/ SigCompute(t) \/ SigDone(t)
Next == (\E t \in Thr : Step(t)) /\ progs' = progs
Spec == Init /\ [][Next]_vars

AllDone == \A t \in Thr : pc[t] = "done"

\* what each program yields when it runs alone
Alone(p) == CASE p = "build" -> "built" [] p = "nested" -> "nested-rejected"
              [] p = "fail" -> "raised-proxy" [] p = "edit" -> "edited" [] p = "copy" -> "copied"
              [] OTHER -> "sig-ok"
AloneEntries(p) == IF p = "edit" THEN 2 ELSE 0

ResultsAsIfAlone ==
  AllDone => \A t \in Thr : result[t] = Alone(progs[t]) /\ Len(hist[t]) = AloneEntries(progs[t])
SeqUniqueAndIncreasing ==
  /\ \A t \in Thr : \A i \in 1..Len(hist[t]) - 1 : hist[t][i] < hist[t][i + 1]
  /\ \A t1, t2 \in Thr : t1 # t2 =>
        \A i \in 1..Len(hist[t1]) : \A j \in 1..Len(hist[t2]) : hist[t1][i] # hist[t2][j]
\* per-thread locality of the flags: a thread outside its own build never holds the guard
GuardPerThread ==
  GlobalFlags \/ \A t \in Thr : inBuild[t] <=> pc[t] \in {"b_body", "n_check", "x_lookup", "b_reset"}
=============================================================================
