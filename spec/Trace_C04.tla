------------------------------ MODULE Trace_C04 ------------------------------
(* C->S for C04: (canonical nesting, call sequence, joint projected results) is accepted iff the
   nesting is in the statement's domain and the joint result equals JointResult. *)
EXTENDS FdlPartial, Json, IOUtils

Traces == JsonDeserialize(IOEnv.TRACE_FILE)
VARIABLE i

ToSet(q) == {q[n] : n \in 1..Len(q)}
Failed(t) ==
  LET calls == [k \in 1..Len(t.calls) |-> ToSet(t.calls[k])] IN
  IF ~WellFormed04(t.heap, 1) THEN "outside-domain"
  ELSE IF t.out # "ok" THEN "raises"
  ELSE IF t.joint # JointResult(t.heap, 1, calls) THEN "joint-result"
  ELSE ""

TInit == i = 0
TNext == /\ i < Len(Traces)
         /\ i' = i + 1
         /\ LET t == Traces[i + 1]  f == Failed(t) IN
            PrintT(ToJson([tid |-> t.tid, ok |-> f = "", failed |-> f]))
=============================================================================
