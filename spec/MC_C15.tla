------------------------------- MODULE MC_C15 -------------------------------
(***************************************************************************)
(* C15: every DAG mixing functions and a class hierarchy in the bound x    *)
(* every selection (callable, match_subclasses, buildable_type) x          *)
(* {iter, get, set, replace, replace_shared}.  Laws: exactly the matching  *)
(* nodes are hit; set and replace leave every non-matching object's other  *)
(* items untouched (frame).                                                *)
(***************************************************************************)
EXTENDS FdlGen, FdlSelect, Json

CONSTANTS EmitOn,
          OpMode    \* "full": 18 selections x 6 operations; "lean": buildable_type = Buildable only

Init == GenInit
Next == NewObj
C == Canon(heap, Root)

SOp(n, f, s, b, sl, v) == [name |-> n, fn |-> f, sub |-> s, bt |-> b, slot |-> sl, val |-> v]
Sels == {<<f, s, b>> : f \in 1..3, s \in BOOLEAN,
                        b \in (IF OpMode = "full" THEN {"buildable", "config", "partial"}
                               ELSE {"buildable"})}
OpsOf ==
  UNION {{SOp("iter", q[1], q[2], q[3], 0, 0), SOp("get", q[1], q[2], q[3], 1, 0),
          SOp("set", q[1], q[2], q[3], 2, 8),
          SOp("replace", q[1], q[2], q[3], 0, 8), SOp("replace", q[1], q[2], q[3], 0, -1),
          SOp("replace_shared", q[1], q[2], q[3], 0, -1)} : q \in Sels}

Laws ==
  (IsComplete /\ GenPrune) =>
    \A op \in OpsOf :
      LET r == ApplySelOp(C, 1, op)  sel == Selected(C, 1, op) IN
      \* selection is sound and complete w.r.t. the statement
      /\ \A o \in 1..Len(C) :
           (o \in sel) <=> (/\ o \in Reach(C, 1) /\ IsBuildableKind(C[o].k) /\ KindOK(C[o].k, op.bt)
                            /\ (C[o].fn = op.fn \/ (op.sub /\ C[o].fn = 3 /\ op.fn = 2)))
      \* set: exactly the selected nodes change, and only in that slot
      /\ (op.name = "set" =>
            \A o \in 1..Len(C) :
              IF o \in sel THEN ValueAt(r.h, o, op.slot) = op.val ELSE r.h[o] = C[o])
      \* replace: no reference to a selected node survives in a non-selected object,
      \* and every item that did not refer to one is unchanged
      /\ (op.name \in {"replace", "replace_shared"} /\ r.out = "ok" =>
            \A o \in 1..Len(C) : \A j \in 1..Len(C[o].items) :
              IF IsRef(C[o].items[j].val) /\ -C[o].items[j].val \in sel
              THEN ~(IsRef(r.h[o].items[j].val) /\ -r.h[o].items[j].val \in sel)
              ELSE r.h[o].items[j] = C[o].items[j])

Emit ==
  \* select() takes a Buildable as its root
  (EmitOn /\ IsComplete /\ GenPrune /\ IsBuildableKind(heap[Root].k)) =>
    \A op \in OpsOf :
      LET r == ApplySelOp(C, 1, op) IN
      PrintT(ToJson([heap |-> C, op |-> op, out |-> r.out, ret |-> r.ret,
                     post |-> Canon(r.h, 1),
                     \* identity frame: which canonical pre-objects are Buildables that must
                     \* still be the same objects afterwards, and where they are in the post heap
                     keep |-> LET ordPost == Dfs(r.h, <<1>>, <<>>) IN
                              [o \in 1..Len(C) |->
                                 IF IsBuildableKind(C[o].k) /\ o \in Range(ordPost)
                                 THEN Pos(ordPost, o) ELSE 0]]))
=============================================================================
