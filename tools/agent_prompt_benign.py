#!/usr/bin/env python3
"""Prompt for a sub-agent producing BENIGN changes (the properties still hold) for a group of properties."""
import json, sys
pids = sys.argv[1].split(',')
tag = sys.argv[2]
wt = f'/tmp/wt/{tag}'
props = {json.loads(l)['id']: json.loads(l) for l in open('/verif/properties.jsonl')}
blocks = []
for pid in pids:
  p = props[pid]
  blocks.append(f"""PROPERTY {pid}
  Title: {p['title']}
  Statement: {p['statement']}
  Quantified over: {p['quantifier']['text']}
  Relevant files: {', '.join(p['anchors']['files'])}""")
print(f"""You are working in a scratch git worktree of the google/fiddle Python library at {wt}.
Work ONLY inside {wt}. Do not read, list or touch /verif, and do not modify /repo.

Environment: no network. Python is /venv/bin/python. Run the existing test-suite with
  cd {wt} && /venv/bin/python -m pytest -q -p no:cacheprovider -n 6 --timeout=900
(on the unmodified tree 1061 tests pass and exactly one unrelated test,
test_code_for_expr_jax_partition_spec, fails; that is the baseline). Run scripts with
  cd {wt} && PYTHONPATH={wt} /venv/bin/python <script>
and make sure `import fiddle; fiddle.__file__` resolves inside {wt}.

Below are semantic properties the library is supposed to satisfy.

{chr(10).join(blocks)}

TASK: for EACH property above produce 2 realistic changes to the fiddle source under {wt}/fiddle, in the files
relevant to that property, that a maintainer could legitimately make and under which THE PROPERTY STILL HOLDS
exactly as stated, the code imports, and the ENTIRE existing test-suite still gives the baseline result. The
changes must not be no-ops: prefer changes that alter something observable that the property does NOT constrain, or
restructure the code path the property depends on, for example: an internal refactoring (helper extracted or
inlined, loop turned into a comprehension, private attribute or private helper renamed consistently), a correct
cache or memo, a different but equally valid order where the statement leaves the order open (e.g. siblings
processed right-to-left where only dependencies-first is required), a reworded error message, a more specific
exception subclass where the statement only says "raises"/"fails", extra bookkeeping that is invisible to the
statement, an early-exit fast path that returns the same result, a defensive copy that changes no visible sharing.
Do not edit tests. Do not change the public behaviour the statement fixes.

For each change create the directory {wt}/_out/<PROPERTY>-b<i>/ (i = 1, 2) containing:
  - patch.diff : output of `git diff` against HEAD (must apply with `git apply` from the repository root);
  - meta.json  : {{"property": "<PROPERTY>", "what_changed": "...", "why_property_still_holds": "...",
                  "observable_difference": "...", "files_changed": [...], "tests_passed_with_patch": <int>}}
After finishing each change, revert the working tree (git checkout -- . ; keep _out/, which is untracked) so the
patches are independent. NEVER use `git stash`. You must yourself verify for every change that the full test-suite
result with the patch applied equals the baseline (1061 passed, the same single failure). Finish with a short
summary listing the changes.""")
