#!/usr/bin/env python3
"""Refreshes the last column (quick: states / validated / wall) of the per-property table in DESIGN.md §0.3
from evidence/<ID>.json."""
import json
import os
import re

VERIF = os.path.dirname(os.path.dirname(os.path.abspath(__file__)))


def short(n):
  if n >= 1_000_000:
    return f'{n / 1_000_000:.1f} M'
  if n >= 1000:
    return f'{n / 1000:.0f} k'
  return str(n)


def main():
  path = os.path.join(VERIF, 'DESIGN.md')
  lines = open(path).read().split('\n')
  out = []
  for l in lines:
    m = re.match(r'^\| (C\d\d) \|', l)
    ev = os.path.join(VERIF, 'evidence', (m.group(1) if m else '') + '.json')
    if m and l.count('|') == 5 and os.path.exists(ev):
      e = json.load(open(ev))
      c = e['coverage']
      validated = c.get('traces_validated_against_impl') or c.get('programs') or c.get('evaluations', 0)
      cells = l.split('|')
      extra = ''
      if e['level'] == 'translation_validation' and c.get('programs'):
        extra = f" ({short(c['programs'])} programs)"
      cells[4] = f" {short(c.get('states', 0))} / {short(validated)}{extra} / {round(e['wall_s'])} s "
      l = '|'.join(cells)
    out.append(l)
  open(path, 'w').write('\n'.join(out))


if __name__ == '__main__':
  main()
