#!/usr/bin/env python3
"""Prints the prompt given to a mutation sub-agent for one property (property text only)."""
import json, sys
pid = sys.argv[1]
n = int(sys.argv[2]) if len(sys.argv) > 2 else 3
tag = sys.argv[3] if len(sys.argv) > 3 else pid
wt = f'/tmp/wt/{tag}'
p = next(json.loads(l) for l in open('/verif/properties.jsonl') if json.loads(l)['id'] == pid)
print(f"""You are working in a scratch git worktree of the google/fiddle Python library at {wt}.
Work ONLY inside {wt}. Do not read, list or touch /verif, and do not modify /repo.

Environment: no network. Python is /venv/bin/python. Run the existing test-suite with
  cd {wt} && /venv/bin/python -m pytest -q -p no:cacheprovider -n 8 --timeout=900
(on the unmodified tree 1061 tests pass and exactly one unrelated test,
test_code_for_expr_jax_partition_spec, fails; that is the baseline). Run scripts with
  cd {wt} && PYTHONPATH={wt} /venv/bin/python <script>
and make sure `import fiddle; fiddle.__file__` resolves inside {wt} (an editable install of /repo exists; the
PYTHONPATH / cwd must take precedence).

PROPERTY ({pid}) that the library is supposed to satisfy:
  Title: {p['title']}
  Statement: {p['statement']}
  Quantified over: {p['quantifier']['text']}
  Relevant files: {', '.join(p['anchors']['files'])}

TASK: produce {n} distinct, realistic changes to the fiddle source under {wt}/fiddle (the kind of slip a
maintainer could make in a refactoring or optimisation: an off-by-one, a wrong condition, a missing copy, a cache
or memo keyed wrongly, a dropped branch, a reordered step, two cooperating sites that each look fine alone, ...)
such that each change BREAKS THE PROPERTY above while the code still imports and the ENTIRE existing test-suite
still passes exactly as on the baseline. Prefer changes that need something specific to manifest (a multi-step
sequence of operations, an unusual input or signature shape, a particular sharing structure, a failure at a
particular point), not ones that ordinary use would expose at once. Do not edit tests. Make the changes different
in kind from one another (different functions / different clauses of the property).

For each change i = 1..{n} create the directory {wt}/_out/m<i>/ containing:
  - patch.diff : output of `git diff` against HEAD (must apply with `git apply` from the repository root);
  - demo.py    : a small standalone program that exits 0 when the property holds and exits non-zero (e.g. a failing
                 assert with a clear message) when it is broken; it must pass on the unmodified tree and fail with
                 the patch applied;
  - meta.json  : {{"property": "{pid}", "what_it_breaks": "...", "needs_to_manifest": "...", "files_changed": [...],
                  "tests_passed_with_patch": <int>}}
After finishing each change, revert the working tree (git checkout -- . ; keep _out/, which is untracked) so the
patches are independent of one another. NEVER use `git stash` (the stash is shared by all worktrees of the
repository and other agents work in sibling worktrees); use `git diff > file`, `git checkout -- .` and `git apply file`. You must yourself verify, for every change: (1) the full test-suite result
with the patch applied equals the baseline (1061 passed, the same single failure); (2) demo.py fails with the patch
and passes without it. Discard candidates that any existing test catches and try another one.
Finish with a short summary listing, per change, the file/function changed, what is needed to trigger it, and the
verification results.""")
if len(sys.argv) > 3:
  import glob, os
  prior = []
  for d in sorted(glob.glob(f'/verif/seeded/{pid}-*')):
    m = json.load(open(os.path.join(d, 'meta.json')))
    what = (m.get('breaks') or m.get('what_it_breaks') or '').replace('\n', ' ')[:260]
    prior.append(f"  - {', '.join(m.get('files_changed', []))}: {what}")
  if prior:
    print('\nAn earlier round already produced the following changes; yours must be of a DIFFERENT kind, in different '
          'functions or clauses of the property:\n' + '\n'.join(prior))
