#!/usr/bin/env python3
"""Confirms sub-agent mutants and runs the registered checks against them.

usage: seed_eval.py <PROP> <agent_out_dir> [--checks C01,C03] [--skip-tests]
For each <agent_out_dir>/m*/ (patch.diff, demo.py, meta.json):
  1. in a scratch worktree: demo passes without the patch; with the patch the
     repository test-suite still matches the baseline and the demo fails;
  2. the patch is applied to /repo, the quick checks are run, /repo is restored;
  3. confirmed mutants are stored under /verif/seeded/<PROP>-<n>/ with meta.json.
"""
import glob
import json
import os
import re
import shutil
import subprocess
import sys
import tempfile

VERIF = os.path.dirname(os.path.dirname(os.path.abspath(__file__)))
REPO = '/repo'
PY = '/venv/bin/python'


def sh(cmd, cwd=None, env=None, timeout=3600):
  e = dict(os.environ)
  if env:
    e.update(env)
  r = subprocess.run(cmd, shell=True, cwd=cwd, env=e, capture_output=True, text=True,
                     timeout=timeout)
  return r.returncode, r.stdout + r.stderr


def main():
  prop = sys.argv[1]
  src = sys.argv[2]
  checks = [prop]
  skip_tests = '--skip-tests' in sys.argv
  for i, a in enumerate(sys.argv):
    if a == '--checks':
      checks = sys.argv[i + 1].split(',')
  rc, out = sh('git status --short', cwd=REPO)
  if out.strip():
    sys.exit('refusing: /repo has uncommitted changes:\n' + out)
  wt = tempfile.mkdtemp(prefix='seedwt-')
  os.rmdir(wt)
  sh(f'git -C {REPO} worktree add --detach {wt} HEAD')
  results = []
  try:
    for mdir in sorted(glob.glob(os.path.join(src, 'm*'))):
      patch = os.path.join(mdir, 'patch.diff')
      demo = os.path.join(mdir, 'demo.py')
      if not (os.path.exists(patch) and os.path.exists(demo)):
        continue
      name = os.path.basename(mdir)
      # demos written by sub-agents may assert their own worktree path: neutralise that line
      src_demo = open(demo).read()
      def neutral(l):
        st = l.lstrip()
        if st.startswith('assert') and '/tmp/wt' in l:
          return l[:len(l) - len(st)] + 'pass  # ' + st
        if ("startswith('/tmp/wt" in l or 'startswith("/tmp/wt' in l) and st == l:
          return 'pass  # ' + l.strip()
        return l
      clean = '\n'.join(neutral(l) for l in src_demo.split('\n'))
      demo = os.path.join(tempfile.gettempdir(), f'demo_{prop}_{name}.py')
      open(demo, 'w').write(clean)
      meta = {}
      try:
        meta = json.load(open(os.path.join(mdir, 'meta.json')))
      except Exception:  # pylint: disable=broad-except
        pass
      res = {'mutant': name, 'meta': meta}
      env = {'PYTHONPATH': wt}
      rc0, o0 = sh(f'{PY} {demo}', cwd=wt, env=env, timeout=600)
      res['demo_clean_rc'] = rc0
      rc, o = sh(f'git apply {patch}', cwd=wt)
      if rc != 0:
        res['error'] = 'patch does not apply: ' + o[-300:]
        results.append(res)
        continue
      rc1, o1 = sh(f'{PY} {demo}', cwd=wt, env=env, timeout=600)
      res['demo_patched_rc'] = rc1
      res['demo_patched_tail'] = o1[-400:]
      if not skip_tests:
        rc, o = sh(f'{PY} -m pytest -q -p no:cacheprovider -n 12 --timeout=900 2>&1 | tail -4', cwd=wt)
        m = re.search(r'(\d+) failed, (\d+) passed', o) or re.search(r'()(\d+) passed', o)
        res['tests'] = m.group(0) if m else o[-200:]
        res['tests_ok'] = bool(m) and m.group(2) == '1061' and (m.group(1) in ('', '1'))
      res['confirmed'] = (rc0 == 0 and rc1 != 0 and (skip_tests or res.get('tests_ok')))
      # run our checks against the scratch worktree with the patch applied (never against /repo: other
      # runs may be using it), evidence redirected
      evd = tempfile.mkdtemp(prefix='fdl-seed-ev-')
      res['checks'] = {}
      try:
        for c in checks:
          rc, o = sh(f'FIDDLE_REPO={wt} VERIF_EVIDENCE_DIR={evd} ./check {c} --tier quick', cwd=VERIF, timeout=3600)
          viol = [l for l in o.splitlines() if l.startswith('VIOLATION')]
          res['checks'][c] = {'rc': rc, 'violations': len(viol),
                              'first': (viol[0] if viol else ''),
                              'features': next((l.strip() for l in o.splitlines()
                                                if l.strip().startswith('features:')), '')[:400],
                              'tail': o[-300:] if rc not in (0, 1) else ''}
      finally:
        sh('git checkout -- . && git clean -fdq', cwd=wt)
        shutil.rmtree(evd, ignore_errors=True)
      res['detected_by'] = [c for c, r in res['checks'].items() if r['rc'] == 1]
      results.append(res)
      print(json.dumps({k: v for k, v in res.items() if k not in ('meta', 'demo_patched_tail')}))
      if res['confirmed']:
        existing = glob.glob(os.path.join(VERIF, 'seeded', f'{prop}-*'))
        dst = os.path.join(VERIF, 'seeded', f'{prop}-{len(existing) + 1}')
        os.makedirs(dst, exist_ok=True)
        shutil.copy(patch, os.path.join(dst, 'patch.diff'))
        shutil.copy(demo, os.path.join(dst, 'demo.py'))
        json.dump({'property': prop, 'breaks': meta.get('what_it_breaks', ''),
                   'needs_to_manifest': meta.get('needs_to_manifest', ''),
                   'files_changed': meta.get('files_changed', []),
                   'confirmed': {'demo_passes_on_clean_tree': rc0 == 0,
                                 'demo_fails_with_patch': rc1 != 0,
                                 'repo_tests_with_patch': res.get('tests', 'not run')},
                   'ran': [f'./check {c} --tier quick' for c in checks],
                   'detected_by': res['detected_by'],
                   'check_results': res['checks']},
                  open(os.path.join(dst, 'meta.json'), 'w'), indent=1)
  finally:
    sh(f'git -C {REPO} worktree remove --force {wt}')
  print('SUMMARY', json.dumps([(r['mutant'], r.get('confirmed'), r.get('detected_by')) for r in results]))


if __name__ == '__main__':
  main()
