#!/usr/bin/env python3
"""Runs the registered quick check of each benign change (property still holds) and expects exit 0.

usage: benign_eval.py <agent_out_dir> [-j N]
Each <PROP>-b<i>/patch.diff is applied in a scratch worktree of /repo's HEAD; the check runs against it through
FIDDLE_REPO with evidence redirected.  Output of runs that are not exit 0 is kept in /tmp/t1/benign_<name>.out.
"""
import concurrent.futures
import glob
import json
import os
import shutil
import subprocess
import sys
import tempfile

VERIF = os.path.dirname(os.path.dirname(os.path.abspath(__file__)))
REPO = '/repo'


def sh(cmd, cwd=None, timeout=3600):
  r = subprocess.run(cmd, shell=True, cwd=cwd, capture_output=True, text=True, timeout=timeout)
  return r.returncode, r.stdout + r.stderr


def one(d):
  name = os.path.basename(d.rstrip('/'))
  prop = name.split('-')[0]
  wt = tempfile.mkdtemp(prefix='fdl-benign-', dir='/tmp')
  ev = tempfile.mkdtemp(prefix='fdl-benign-ev-', dir='/tmp')
  os.rmdir(wt)
  try:
    rc, o = sh(f'git worktree add --detach {wt} HEAD -q', cwd=REPO)
    if rc != 0:
      return name, 'worktree failed'
    rc, o = sh(f'git apply {d}/patch.diff', cwd=wt)
    if rc != 0:
      return name, 'patch does not apply: ' + o[-200:]
    rc, o = sh(f'FIDDLE_REPO={wt} VERIF_EVIDENCE_DIR={ev} VERIF_DEBUG=1 timeout -k 5 1800 ./check {prop} --tier quick', cwd=VERIF)
    if rc != 0:
      os.makedirs('/tmp/t1', exist_ok=True)
      open(f'/tmp/t1/benign_{name}.out', 'w').write(o)
    return name, rc
  finally:
    sh(f'git worktree remove --force {wt}', cwd=REPO)
    shutil.rmtree(wt, ignore_errors=True)
    shutil.rmtree(ev, ignore_errors=True)


def main():
  out = sys.argv[1]
  jobs = int(sys.argv[3]) if len(sys.argv) > 3 and sys.argv[2] == '-j' else 1
  dirs = sorted(glob.glob(os.path.join(out, '*-b*')))
  res = []
  with concurrent.futures.ThreadPoolExecutor(jobs) as ex:
    for name, rc in ex.map(one, dirs):
      print(name, rc, flush=True)
      res.append((name, rc))
  sh('git worktree prune', cwd=REPO)
  print('SUMMARY', json.dumps(res))


if __name__ == '__main__':
  main()
