#!/usr/bin/env python3
"""Re-runs the registered quick checks against every seeded mutant and updates meta.json.

usage: seed_recheck.py [PROP ...]   (applies each patch to /repo, runs ./check, restores /repo)
"""
import glob
import json
import os
import subprocess
import sys

VERIF = os.path.dirname(os.path.dirname(os.path.abspath(__file__)))
REPO = '/repo'


def sh(cmd, cwd=None, timeout=3600):
  r = subprocess.run(cmd, shell=True, cwd=cwd, capture_output=True, text=True, timeout=timeout)
  return r.returncode, r.stdout + r.stderr


def main():
  want = set(sys.argv[1:])
  rc, out = sh('git status --short', cwd=REPO)
  if out.strip():
    sys.exit('refusing: /repo has uncommitted changes')
  manifest = json.load(open(os.path.join(VERIF, 'MANIFEST.json')))
  claimed = {c['property_id'] for c in manifest['checks']}
  summary = []
  for d in sorted(glob.glob(os.path.join(VERIF, 'seeded', '*-*'))):
    meta_path = os.path.join(d, 'meta.json')
    meta = json.load(open(meta_path))
    prop = meta['property']
    if want and prop not in want:
      continue
    checks = [prop] if prop in claimed else []
    extra = meta.get('also_run', [])
    checks += [c for c in extra if c in claimed and c not in checks]
    rc, o = sh(f'git apply {d}/patch.diff', cwd=REPO)
    if rc != 0:
      summary.append((os.path.basename(d), 'patch no longer applies'))
      meta['recheck'] = 'patch no longer applies to /repo HEAD'
      json.dump(meta, open(meta_path, 'w'), indent=1)
      continue
    results = {}
    try:
      for c in checks:
        rc, o = sh(f'./check {c} --tier quick', cwd=VERIF)
        feats = [l.strip() for l in o.splitlines() if l.strip().startswith('features:')]
        results[c] = {'rc': rc, 'violations': sum(1 for l in o.splitlines() if l.startswith('VIOLATION')),
                      'features': feats[0][:300] if feats else ''}
    finally:
      sh('git checkout -- .', cwd=REPO)
    meta['check_results'] = results
    meta['detected_by'] = [c for c, r in results.items() if r['rc'] == 1]
    meta['ran'] = [f'./check {c} --tier quick' for c in checks]
    json.dump(meta, open(meta_path, 'w'), indent=1)
    summary.append((os.path.basename(d), meta['detected_by']))
    print(os.path.basename(d), meta['detected_by'], flush=True)
  print('SUMMARY', json.dumps(summary))


if __name__ == '__main__':
  main()
