#!/usr/bin/env python3
"""Re-runs the registered quick checks against every seeded mutant and updates meta.json.

usage: seed_recheck.py [-j N] [PROP ...]
Each patch is applied in a scratch worktree of /repo's HEAD (outside /repo and /verif); the registered quick
check runs against it through FIDDLE_REPO, with its evidence redirected to a scratch directory, so /repo and
/verif/evidence are never touched.  Worktrees are removed afterwards.
"""
import concurrent.futures
import shutil
import tempfile
import glob
import json
import os
import subprocess
import sys

VERIF = os.path.dirname(os.path.dirname(os.path.abspath(__file__)))
REPO = '/repo'


def sh(cmd, cwd=None, timeout=3600):
  r = subprocess.run(cmd, shell=True, cwd=cwd, capture_output=True, text=True, timeout=timeout)
  return r.returncode, r.stdout + r.stderr


def one(d, claimed):
  meta_path = os.path.join(d, 'meta.json')
  meta = json.load(open(meta_path))
  prop = meta['property']
  checks = [prop] if prop in claimed else []
  checks += [c for c in meta.get('also_run', []) if c in claimed and c not in checks]
  wt = tempfile.mkdtemp(prefix='fdl-recheck-', dir='/tmp')
  ev = tempfile.mkdtemp(prefix='fdl-recheck-ev-', dir='/tmp')
  os.rmdir(wt)
  try:
    rc, o = sh(f'git worktree add --detach {wt} HEAD -q', cwd=REPO)
    if rc != 0:
      return os.path.basename(d), 'worktree failed: ' + o[-200:]
    rc, o = sh(f'git apply {d}/patch.diff', cwd=wt)
    if rc != 0:
      meta['recheck'] = 'patch no longer applies to /repo HEAD'
      json.dump(meta, open(meta_path, 'w'), indent=1)
      return os.path.basename(d), 'patch no longer applies'
    results = {}
    for c in checks:
      rc, o = sh(f'FIDDLE_REPO={wt} VERIF_EVIDENCE_DIR={ev} timeout -k 5 1800 ./check {c} --tier quick', cwd=VERIF)
      feats = [l.strip() for l in o.splitlines() if l.strip().startswith('features:')]
      results[c] = {'rc': rc, 'violations': sum(1 for l in o.splitlines() if l.startswith('VIOLATION')),
                    'features': feats[0][:300] if feats else ''}
    # does the change still break the property on /repo's HEAD?  (a later fix: commit can make it harmless)
    demo = os.path.join(d, 'demo.py')
    if os.path.exists(demo):
      rc, o = sh(f'PYTHONPATH={wt} PYTHONHASHSEED=0 timeout -k 5 600 /venv/bin/python {demo}', cwd=wt)
      meta['demo_fails_with_patch_at_head'] = rc != 0
    meta['check_results'] = results
    meta['detected_by'] = [c for c, r in results.items() if r['rc'] == 1]
    meta['ran'] = [f'./check {c} --tier quick' for c in checks]
    meta.pop('recheck', None)
    json.dump(meta, open(meta_path, 'w'), indent=1)
    return os.path.basename(d), meta['detected_by']
  finally:
    sh(f'git worktree remove --force {wt}', cwd=REPO)
    shutil.rmtree(wt, ignore_errors=True)
    shutil.rmtree(ev, ignore_errors=True)


def main():
  args = sys.argv[1:]
  jobs = 1
  if args[:1] == ['-j']:
    jobs = int(args[1])
    args = args[2:]
  want = set(args)
  manifest = json.load(open(os.path.join(VERIF, 'MANIFEST.json')))
  claimed = {c['property_id'] for c in manifest['checks']}
  dirs = [d for d in sorted(glob.glob(os.path.join(VERIF, 'seeded', '*-*')))
          if not want or json.load(open(os.path.join(d, 'meta.json')))['property'] in want]
  summary = []
  with concurrent.futures.ThreadPoolExecutor(jobs) as ex:
    for name, res in ex.map(lambda d: one(d, claimed), dirs):
      summary.append((name, res))
      print(name, res, flush=True)
  sh('git worktree prune', cwd=REPO)
  print('SUMMARY', json.dumps(summary))


if __name__ == '__main__':
  main()
