#!/usr/bin/env python3
"""Rewrites the seeded-changes table of DESIGN.md (between the SEEDED-TABLE markers) from seeded/*/meta.json."""
import glob
import json
import os
import re

VERIF = os.path.dirname(os.path.dirname(os.path.abspath(__file__)))


def main():
  rows = []
  for d in sorted(glob.glob(os.path.join(VERIF, 'seeded', '*-*'))):
    m = json.load(open(os.path.join(d, 'meta.json')))
    what = (m.get('breaks') or m.get('what_it_breaks') or '').replace('\n', ' ').replace('|', '/')
    what = what[:200] + ('…' if len(what) > 200 else '')
    files = ', '.join(os.path.basename(f) for f in m.get('files_changed', []))
    det = []
    for c, r in (m.get('check_results') or {}).items():
      if r.get('rc') == 1:
        clause = ''
        mm = re.search(r'"clause": "([^"]+)"', r.get('features', ''))
        if mm:
          clause = mm.group(1)
        det.append(f'{c} ({clause})' if clause else c)
    if not det and m.get('demo_fails_with_patch_at_head') is False:
      det = ['— (no longer breaks the property on the repaired tree: its own demonstration passes)']
    rows.append(f'| {os.path.basename(d)} | {files}: {what} | {", ".join(det) if det else "NOT DETECTED"} |')
  path = os.path.join(VERIF, 'DESIGN.md')
  text = open(path).read()
  begin, end = '<!-- SEEDED-TABLE-BEGIN -->', '<!-- SEEDED-TABLE-END -->'
  i, j = text.index(begin) + len(begin), text.index(end)
  text = text[:i] + '\n' + '\n'.join(rows) + '\n' + text[j:]
  open(path, 'w').write(text)
  print(f'{len(rows)} rows; undetected: {sum(1 for r in rows if "NOT DETECTED" in r)}')


if __name__ == '__main__':
  main()
