#!/usr/bin/env python3
"""Regenerates MANIFEST.json from the table below (single source of truth)."""
import json
import os

HERE = os.path.dirname(os.path.dirname(os.path.abspath(__file__)))
props = [json.loads(l) for l in open(os.path.join(HERE, 'properties.jsonl'))]

BASELINE = ('cd /repo && /venv/bin/python -m pytest -ra -q -p no:cacheprovider '
            '--timeout=900 --continue-on-collection-errors')

MC = 'model_checking'
TV = 'translation_validation'

# id -> (category, text, design_ref, level_note, technique)
CLAIMS = {
    'C10': (MC,
            'MC_C10 generates pairs (old, new) on the heap machine: new is a deep copy of old changed by up to two '
            'generic edits (argument value changed / added / removed, callable swapped, tag set changed, a reference '
            'redirected to any other object -- alias created or broken, subtree moved --, a target split into a '
            'fresh copy, container items changed); TLC checks that the plain copy is equivalent (its diff must be '
            'empty) and that editing new never touches old. For every pair the real build_diff / apply_diff are run '
            'on a deep copy of old: the result must project to new (callables, arguments, tags, sharing), in place, '
            'with new and the diff unmodified; unchanged pairs must give an empty diff. Random unrelated pairs and '
            'pairs sharing objects by identity are added.',
            'DESIGN.md §5 C10',
            'Trusted: TLC, harness projection. Known finding: Buildables with positional (integer-keyed) arguments '
            'make build_diff raise TypeError.',
            'TLA+ pair/edit machine; exhaustive pairs from TLC replayed through build_diff/apply_diff'),
    'C09': (MC,
            'Three TLA+ pieces: (1) FdlSerial models ARBITRARY documents (object tables of leaves, pyrefs, lists with '
            'shared objects) and symbol statuses (approved / refused by allows_import / value rejected by '
            'allows_value / missing); TLC enumerates every document and status assignment in the bound with the '
            'loader\'s walk, the required outcome and the set of symbols it may import, and checks PolicySound; every '
            'document is built for real and loaded under a recording policy with symbols whose every resolution is '
            'logged (outcome, nothing refused is ever resolved, nothing beyond the need is resolved, no callable '
            'runs, decoded value). (2) MC_Heaps generates every configuration in the bound (Partials, tags, tagged '
            'arguments without value, stand-alone TaggedValues, tuples, named tuples, dicts with keys of mixed '
            'types, shared containers); each is dumped, parsed by a strict JSON parser, loaded under the recording '
            'policy with recording callables, projected and compared, and re-dumped. (3) FdlBytes is the codec model '
            'for bytes: the codec as found violates LosslessOrLoud (negative control), the repaired one satisfies '
            'it. Leaf value classes (big ints, special floats, arbitrary str/bytes, enums, sets, slices, named '
            'tuples, defaultdicts, NO_VALUE, dict keys of every serializable type, dict-based objects) are '
            'exploration on the real library.',
            'DESIGN.md §5 C09',
            'Trusted: TLC, harness projection, CPython json for numeral/text fidelity (exploration part). Known '
            'finding: special floats are emitted as NaN/Infinity tokens.',
            'TLA+ document/policy model with exhaustive documents from TLC; heap round trips; codec model with '
            'negative control'),
    'C19': (MC,
            'FdlThreads models fiddle\'s module-level state (thread-local build guard and tracking flag, the history '
            'counter, the signature cache, the exception-proxy cache) with one action per access and TLC explores '
            'every interleaving for every assignment of six programs to 2 (quick) and 3 (thorough) threads, checking '
            'ResultsAsIfAlone, SeqUniqueAndIncreasing and GuardPerThread; the same model with global instead of '
            'thread-local flags is a negative control that must fail. Real threads are then run under a '
            'deterministic scheduler (sys.settrace; one thread at a time, a step per source line inside '
            'fiddle/_src): every sampled single preemption point of every program pair, seeded random schedules and '
            'random triples (bound-2 preemptions in the thorough tier). Each executed schedule yields a record '
            '(result token per thread, sequence ids of its history entries, guard/tracking values observed per region '
            'of its program) that is judged by Trace_C19 against the model\'s as-if-alone results and per-thread flag '
            'locality.',
            'DESIGN.md §5 C19',
            'Trusted: TLC, the scheduler (one runnable thread at a time, schedule = sequence of thread ids; no wall '
            'clock). Assumed: preemption at source-line granularity; bytecode-level preemption inside one line '
            '(next(counter), dict operations) is atomic under the GIL. Label-level replay of TLC interleavings into '
            'the code is not done; the binding is through observed results and observed flags.',
            'TLA+ interleaving model checked by TLC with negative control; deterministic line-granular thread '
            'scheduler; executed schedules judged by the specification'),
    'C04': (MC,
            'FdlPartial defines which objects are fresh (an ArgFactory or a container holding one) and constructs '
            'the joint result graph of a sequence of calls of the built callable, so that "fresh per call", "built '
            'once and shared by every call", "passed through uncopied" and "override wins" are statements about '
            'identities in one canonical form; TLC checks FreshAcrossCalls, BuiltOnce and OverrideWins for every '
            'Partial/ArgFactory/Config/container nesting in the bound and every call sequence with overrides. Each '
            '(nesting, call sequence) is replayed: fdl.build once, the calls in order, the results projected jointly '
            'and compared with the specification, and the number of callables invoked at build time; random deeper '
            'nestings are judged by Trace_C04; scenarios cover a functools.partial reference, Partial inside '
            'Partial, positional (*args) arguments and one ArgFactory instance used twice.',
            'DESIGN.md §5 C04',
            'Trusted: TLC, harness projection. Domain: an ArgFactory has a single use and is not an argument of a '
            'Config (documented misuse). Whether an overridden factory still runs is not observed.',
            'TLA+ joint-result semantics with laws checked by TLC; replay of build + call sequences'),
    'C16': (MC,
            'FdlHist states the history clauses as predicates over one operation on FdlStore (DeltaOK: with tracking '
            'on, every storage key whose value changed gains exactly one entry reflecting the new state, an '
            'addressed-but-unchanged key at most one, any other key none, nothing under suspension; TagDeltaOK for '
            'tag edits). MC_C16 checks with TLC that a reference history (one entry per changed key) satisfies them '
            'and that LastEntryIsCurrent follows in every history in the bound. Real Buildables (random signatures '
            '<= 6 parameters) are edited in an interleaved fashion -- index/slice/attribute edits, tag edits, '
            'assign, materialize_defaults, update_callable, nested suspend_tracking -- and every event, with the '
            'entries it appended, their sequence ids, attribution and the last entry per key, is judged by '
            'Trace_C16 (FdlStore step + DeltaOK + strictly increasing sequence ids + attribution of direct edits + '
            'LastEntryIsCurrent + last tag set), plus global uniqueness of sequence ids over the batch.',
            'DESIGN.md §5 C16',
            'Trusted: TLC, harness projection of history entries. Loose where the statement is silent (re-assigning '
            'an identical value may add zero or one entry). Attribution is required of direct edits, assign, '
            'materialize_defaults and update_callable (tag edits are pinned to add_tag by the repository\'s own '
            'tests). The thread clause is decided by C19.',
            'TLA+ history clauses; recorded interleaved edit traces validated event by event by TLC'),
    'C20': (MC,
            'FdlTransforms states the clauses as predicates over (pre, post) on the heap machine -- SameMeaning '
            '(identical built graphs, with an unconfigured Partial and its bare callable identified), Equiv for the '
            'default-related transformations, AllExplicit and idempotence for materialize_defaults, preserved '
            'serializability -- without prescribing the post-state; TLC checks on every configuration in the bound '
            'that a reference materialize_defaults satisfies all of them (satisfiable, non-vacuous). Each real '
            'transformation (nine call forms) is applied to every generated heap and to random heaps with '
            'arguments explicitly at their defaults; the recorded (pre, post, post-of-second-application, real == '
            'verdict, real serializability, real built graphs, input untouched) is judged by Trace_C20. Seven '
            'scenarios cover positional-only defaults, shared mutable defaults, dataclass default factories, '
            'convert_dataclasses_to_configs, auto_config.inline, unset TaggedValues and Partials in containers.',
            'DESIGN.md §5 C20',
            'Trusted: TLC, harness projection (built functools.partial objects are projected through their '
            'func/keywords). auto_config.inline and convert_dataclasses_to_configs are exercised by scenarios only.',
            'TLA+ clause predicates judged on recorded (pre, post) pairs; exhaustive shapes from TLC'),
    'C06': (MC,
            'FdlEq states the property (level A, Equiv: canonical forms coincide after making defaults explicit and '
            'forgetting tags, history and dict order) and transcribes fiddle\'s comparison algorithm (level B, '
            'EqImpl: structural value comparison plus the sharing structure of a memoized traversal at every '
            'Buildable node). MC_C06 explores pairs (x, y) where y is a deep copy of x changed by one generic '
            'rewrite (any leaf, default, redirect of a reference to any other object, fresh copy of a target, '
            'callable, Buildable type, dict order); TLC checks EqImpl = Equiv, Equiv => identical built graphs, and '
            'symmetry, and a negative control (the algorithm as found) must violate the refinement. Every pair is '
            'replayed on the real library (x==y, y==x, x!=y, x==x, never raising, agreeing with Equiv; equal pairs '
            'are built and compared; every second y is realised through a different edit history); random chains '
            'x->y->z on larger configurations are judged by Trace_C06 including transitivity.',
            'DESIGN.md §5 C06',
            'Trusted: TLC, harness projection. Leaves are NaN-free ints; dict key 3 is an int among string keys. '
            'Tags do not take part in == (not listed by the statement).',
            'TLA+ refinement (comparison algorithm vs equivalence) with negative control; pair replay; recorded '
            'chains judged by the specification'),
    'C14': (MC,
            'FdlTags gives every tag operation a functional semantics on the heap machine (tag hierarchy as a '
            'bitmask: T0 > T1, T2 unrelated): set_tagged / select(tag).replace with and without deepcopy, '
            'iteration of a tag selection, list_tags with and without superclasses, add/remove/set/clear tag. TLC '
            'checks on every tagged configuration in the bound the pointwise statement (AssignLaw: every matching '
            'argument of every reachable Buildable holds v, every other argument and every tag set is unchanged; '
            'EditLaw: a tag edit changes one tag set and no value). Every (heap, operation) is replayed on the real '
            'library (outcome, projected post-heap incl. tags, yielded multiset, list_tags mask); random larger '
            'tagged configurations are recorded and judged by Trace_C14; nine scenarios cover tags on '
            'positional-only, *args and **kwargs arguments, annotation tags, Tag.new and survival through JSON and '
            'diff application (copy/cast survival is decided in C07, TaggedValue build semantics in C02).',
            'DESIGN.md §5 C14',
            'Trusted: TLC, harness projection. Domain: the assigned value is a leaf or a Buildable carrying no '
            'argument tagged with the selected tag.',
            'TLA+ functional tag semantics + pointwise laws checked by TLC; per-operation replay; recorded '
            'operations judged by the specification'),
    'C15': (MC,
            'FdlSelect defines which nodes a selection matches (callable pool with a class hierarchy A > B, '
            'match_subclasses, buildable_type) and the effect of iter / get / set / replace on the heap machine; TLC '
            'checks for every DAG in the bound that the selection is sound and complete w.r.t. the statement, that '
            'set changes exactly the selected nodes in exactly that slot and that replace removes every reference '
            'to a selected node while every other item is unchanged. Every (heap, selection, operation) is '
            'replayed with fiddle.selectors: yielded identities, get() multiset, projected post-heap and the '
            'identity of every surviving non-matching Buildable; random larger DAGs are judged by Trace_C15. '
            '(Iteration of tag selections is decided in C14.)',
            'DESIGN.md §5 C15',
            'Trusted: TLC, harness projection. Containers holding a replaced reference may be rebuilt; only '
            'Buildables must keep identity. With deepcopy the replacement is copied once per matching node.',
            'TLA+ selection semantics + laws checked by TLC; per-operation replay with identity observation'),
    'C07': (MC,
            'MC_C07 models the six copy operations on the abstract heap (deep kinds duplicate every reachable '
            'object and remap references, shallow kinds add one top-level object holding the same values) followed '
            'by one edit of an object of the copy; TLC checks DeepFaithful, DeepDisjoint, ShallowFresh, '
            'ShallowValuesShared, OriginalIsSnapshot and the action property OriginalUnaffected (projection and '
            'built graph of the original unchanged by every edit step). Every (original, copy kind, edit) state is '
            'replayed on the real library: projection of the copy before and after the edit, number of mutable '
            'objects shared by identity, freshness of per-Buildable cells (argument dict, tag sets, history lists), '
            'and the original\'s projection and build result after the edit. Random larger configurations get '
            'several edits on the copy.',
            'DESIGN.md §5 C07',
            'Trusted: TLC, harness projection. Tuples are immutable and exempt from identity disjointness (CPython '
            'deepcopy returns the same tuple when nothing in it changes). History entries are shared by design; '
            'history lists must be distinct.',
            'TLA+ copy/edit machine checked by TLC; per-state replay into fiddle with identity-level observation'),
    'C17': (MC,
            'FdlFrame (MC_C17) has one CallApi action per entry point whose only clause is UNCHANGED heap, checked '
            'as an action property; TLC supplies every configuration shape in the bound (shared nodes, Partials, '
            'tags, tagged arguments without value). For every generated heap each of 66 call forms of the public '
            'read-only / copy-returning APIs is run on a fresh realisation and the projection (callables, '
            'arguments, tags, sharing) and the identity of every object are compared before and after; APIs that '
            'raise on a shape are still held to the frame condition. A sample of recorded events and every '
            'modifying event is judged by Trace_C17.',
            'DESIGN.md §5 C17',
            'Trusted: TLC, harness projection. The specification is trivial by design (frame condition); coverage '
            'comes from the exhaustively generated shapes x the entry-point table.',
            'TLA+ frame specification; exhaustive shapes from TLC x API table replayed on fiddle'),
    'C08': (MC,
            'FdlPaths defines AllPaths / PathsTo / Follow on the heap machine and one acceptance predicate per '
            'observation (BasicOK, MemoOK, ByIdOK, rebuild isomorphism); TLC checks on every complete heap in the '
            'bound that the path sets are sound w.r.t. Follow, partition by object and that the clauses are '
            'satisfiable. Every generated heap is realised and eight real observation streams (daglish.iterate '
            'basic/memoized/without internables, collect_paths_by_id, State.get_all_paths, identity map_children, '
            'legacy traverse_with_path / memoized_traverse) are compared with the specification; random larger and '
            'hand-listed structures (defaultdict, named tuples, empty containers, positional Buildable arguments, '
            'Partial) are recorded and judged by Trace_C08; cyclic structures must raise in bounded time; a node '
            'type with temporaries is a scenario.',
            'DESIGN.md §5 C08',
            'Trusted: TLC, harness projection (identity numbering keeps every object alive). Bounded: heaps <= 4 '
            'objects exhaustively, <= 12 randomly. The empty tuple is not memoizable by the documented API contract.',
            'TLA+ path semantics + TLC exhaustive heap generation; stream comparison on the real library; '
            'recorded streams judged by the specification'),
    'C01': (MC,
            'Level A (BuildExpect: call f with the reported arguments, own defaults for unset parameters, '
            'raise when a required one is missing) and level B (fiddle\'s canonical-storage to '
            '(*args, **kwargs) transformation followed by CPython call binding) are both written in TLA+; '
            'TLC checks that B refines A and that no value is ever bound to a different parameter in every '
            'store state reachable through any constructor call and edits, and a negative control (the '
            'algorithm as found) must violate it. Every distinct state is replayed on the real library for six '
            'callable forms (constructor verdict, stored state, build result or failure, one invocation), and '
            'random larger signatures are recorded from the real library and judged by the same BuildExpect.',
            'DESIGN.md §5 C01',
            'Trusted: TLC, harness projection, recording callables. Bounded: signatures <= 3 (quick) / 4 '
            '(thorough) parameters exhaustively, <= 7 randomly. Nesting of Buildables inside containers is '
            'decided by the FdlBuild specification (C02).',
            'TLA+ refinement (algorithm vs statement) checked by TLC; per-state replay into fiddle; '
            'recorded observations judged by the specification'),
    'C02': (MC,
            'The level-A build specification (FdlHeap + MC_C02) generates every complete object graph within '
            'the bound bottom-up through the modelled constructors and explores every enabled order of the '
            'Call action; TLC checks ExactlyOnce, DepsFirst, MirrorsConfig and Progress. Every generated heap '
            'is realised and built by the real library: the invocation log must be a behaviour of Call, the '
            'projected result must equal the specification\'s built graph (same sharing, distinct nodes '
            'distinct), the configuration must be unchanged and two builds must share no object. Larger '
            'random heaps are recorded and judged by Trace_C02; temporaries-creating node types and deep '
            'chains are replayed as parametric scenarios.',
            'DESIGN.md §5 C02',
            'Trusted: TLC, harness realize/project (identity-based first-visit numbering). Bounded: heaps of '
            '<= 4 (quick) / 5 (thorough) objects exhaustively, <= 14 randomly. Leaf-only tuples have value '
            'semantics and are not shared by the generator.',
            'TLA+ heap machine + TLC exhaustive generation; replay into fiddle; recorded invocation orders '
            'validated against the Call action'),
    'C05': ('fault_enumeration',
            'The build machine with faults is specified in TLA+ (MC_C05: failing node, nested fdl.build inside a '
            'callable, per-thread guard flag, repeated builds, repair) and TLC checks FlagReset, FailureIsLast, '
            'OnceAndDepsFirst, PathLeadsToFailing, NextBuildNormal and the action properties NoCallAfterFailure '
            'and ConfigUnchanged over all heaps and fault placements in the bound. On the real library every '
            'Buildable of every TLC-generated heap is made the failing node, crossed with nine exception class '
            'shapes, diagnostic hazards, nested builds and repeated failures; the escaped exception (class, '
            'message prefix, path membership in the specification\'s path set and identity of the object the path '
            'reaches), the invocation log, the configuration and the next build are compared with the specification.',
            'DESIGN.md §5 C05',
            'Trusted: TLC, harness. The path is parsed from the documented message format. Three by-design '
            'deviations (BaseException-only classes, un-subclassable classes, failure while formatting the '
            'diagnostic) are recorded in known_findings.json and printed as KNOWN-FINDING.',
            'TLA+ fault machine checked by TLC; exhaustive fault enumeration over TLC-generated heaps replayed '
            'into fiddle'),
    'C03': (MC,
            'TLC explores the level-A argument-store specification (FdlStore: a dict restricted to the '
            'signature plus a Python list with a fixed prefix) exhaustively for all signatures of <= 3-4 '
            'parameters, constructor calls and edit histories within the tier bounds, asserting the model '
            'laws on every transition; every generated transition is replayed on the real Buildable '
            '(outcome, value read, full projected state, cfg[:], ordered_arguments), and random longer '
            'histories recorded from the real library are validated as behaviours of the same '
            'specification (Trace_C03).',
            'DESIGN.md §5 C03',
            'Trusted: TLC, the projection in harness/store.py (checked against the spec on every state), '
            'CPython list semantics (the spec is self-tested against real lists on f(*args)). Bounded: '
            'signatures <= 4 parameters exhaustively, <= 8 randomly; histories <= 3 ops exhaustively, '
            '<= 30 randomly.',
            'TLA+ reference model + TLC exhaustive exploration; per-transition replay into fiddle; '
            'batched trace validation of recorded histories'),
}

REASON_PENDING = ('check not built yet (work in progress; will be claimed once its TLA+ '
                  'specification and binding are green)')

checks = []
for p in props:
  pid = p['id']
  if pid not in CLAIMS:
    continue
  cat, text, ref, note, tech = CLAIMS[pid]
  checks.append({
      'property_id': pid,
      'quick_cmd': f'./check {pid} --tier quick',
      'thorough_cmd': f'./check {pid} --tier thorough',
      'evidence_file': f'/verif/evidence/{pid}.json',
      'replay_cmd_template': f'./check {pid} --replay {{path}}',
      'engine': 'tlc+harness',
      'level_claimed': {'category': cat, 'text': text, 'design_ref': ref},
      'level_note': note,
      'technique': tech,
  })

fix_commits = []
try:
  kf = json.load(open(os.path.join(HERE, 'known_findings.json')))
except Exception:  # pylint: disable=broad-except
  kf = []

manifest = {
    'version': 1,
    'setup_cmd': './setup.sh',
    'hooks': {
        'guard': 'FIDDLE_VERIF',
        'enable': ('no in-repo hooks: the harness wraps public entry points from its own process '
                   '(monkey-patching, sys.settrace); FIDDLE_VERIF is reserved'),
        'baseline_off_cmd': BASELINE,
        'source_commits': [],
        'add_only': True,
    },
    'engines': [
        {'name': 'tlc+harness', 'path': '/verif/check',
         'serves_properties': sorted(CLAIMS),
         'kind_free_text': ('TLA+ specifications in /verif/spec checked by TLC 1.8; Python harness in '
                            '/verif/harness replays TLC-generated transitions into fiddle (S->C) and '
                            'validates traces recorded from fiddle against the specification (C->S)')},
    ],
    'checks': checks,
    'notes': ('Genuine defects found by the checks and repaired in /repo are listed in '
              'known_findings.json (status fixed); defects recorded but not repaired have status known.'),
    'not_applicable': [
        {'property_id': p['id'], 'reason': REASON_PENDING}
        for p in props if p['id'] not in CLAIMS
    ],
}
json.dump(manifest, open(os.path.join(HERE, 'MANIFEST.json'), 'w'), indent=1)
print('claimed:', sorted(CLAIMS))
