"""Top-level twin of harness/c13pkg/fdlverif_helpers.py (C10/C13: import naming in generated code)."""


def make(s1=0, s2=0):
  return ('fdlverif_helpers.make', s1, s2)
